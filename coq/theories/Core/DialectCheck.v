(* The dialect tables of coq/gen/DialectTables.v (regenerated from compiler/dialects.py and
   compiler/expr_translate.py on every run) looked at through Core/SqlText.v: which function / operator
   template each dialect ends up with (QL.__init__), with which arity it can be reached
   (QL.BuiltInFunctionArityRange), and the list `defect_cells` of (dialect, kind, name) for which the
   instantiation is NOT guaranteed: a method whose parameter list does not fit a call site, a template that
   is unbalanced, mixes the two placeholder styles, or uses a placeholder its arity does not provide.
   Model only; proofs in DialectCheckProofs.v. *)
From Coq Require Import List String NArith Bool Arith.
Import ListNotations.
From LV Require Import Core.DialectSig Core.SqlText.
From LVGen Require Import DialectTables.
Local Open Scope string_scope.

Definition assoc (k : string) (l : list (string * string)) : option string :=
  match find (fun p => String.eqb (fst p) k) l with Some p => Some (snd p) | None => None end.

Definition bulk_lookup (name : string) : option bulk_function :=
  find (fun b => String.eqb (bf_name b) name) bulk_functions.

(* QL.__init__: built_in_functions = bulk, updated by BUILT_IN_FUNCTIONS, updated by the dialect's *)
Definition eff_function (d : dialect) (name : string) : option string :=
  match assoc name (d_functions d) with
  | Some t => Some t
  | None => match assoc name ql_functions with
            | Some t => Some t
            | None => option_map bf_template (bulk_lookup name)
            end
  end.

Definition eff_infix (d : dialect) (name : string) : option string :=
  match assoc name (d_infix d) with Some t => Some t | None => assoc name ql_infix end.

Definition mem_string (x : string) (l : list string) : bool := existsb (String.eqb x) l.

(* QL.BuiltInFunctionArityRange; None: the name is in no basis table, so the parser never produces a call
   of it as a built-in (FunctionExists is false) and the dialect's entry is dead. *)
Definition arity_of (name : string) : option (nat * option nat) :=
  if mem_string name (map fst ql_functions) then
    if String.eqb name "If" then Some (3, Some 3)
    else if mem_string name ql_arity2 then Some (2, Some 2)
    else Some (1, Some 1)
  else option_map (fun b => (bf_min b, bf_max b)) (bulk_lookup name).

Definition function_names (d : dialect) : list string :=
  map fst (d_functions d) ++ map fst ql_functions ++ map bf_name bulk_functions.
Definition infix_names (d : dialect) : list string := map fst (d_infix d) ++ map fst ql_infix.

Definition qs_of (d : dialect) : qstyle := qstyle_of (d_key d).

Definition function_ok (d : dialect) (name : string) : bool :=
  match eff_function d name, arity_of name with
  | Some tpl, Some (lo, _) => function_template_ok (qs_of d) (bytes tpl) lo
  | _, _ => true
  end.

Definition infix_ok (d : dialect) (name : string) : bool :=
  match eff_infix d name with
  | Some tpl => infix_template_ok (qs_of d) (bytes tpl)
  | None => true
  end.

Definition analytic_nargs (name : string) : nat := if prefix "Window" name then 4 else 3.
Definition analytic_ok (d : dialect) (name : string) : bool :=
  match assoc name ql_analytic with
  | Some tpl => format_template_ok (qs_of d) (bytes tpl) (analytic_nargs name)
  | None => true
  end.

Definition unnest_ok (d : dialect) : bool := format_template_ok (qs_of d) (bytes (d_unnest d)) 2.
Definition array_ok (d : dialect) : bool := percent_template_ok (qs_of d) no_allow (bytes (d_array d)) 1.

(* In a Subscript format the record argument must stand outside literals; the subscript (a field name,
   col<N> or * -- inert text) may stand inside one ("$.%s", '%s'). *)
Definition allow_sub (sf : subscript_format) (k : key) : bool :=
  match k with
  | KIdx i => match nth_error (sf_args sf) i with
              | Some a => negb (String.eqb a "record")
              | None => false
              end
  | KName _ => false
  end.
Definition subscript_format_ok (d : dialect) (sf : subscript_format) : bool :=
  percent_template_ok (qs_of d) (allow_sub sf) (bytes (sf_format sf)) (List.length (sf_args sf)).
Definition subscript_ok (d : dialect) : bool := forallb (subscript_format_ok d) (d_subscript d).

(* Python: a call with n positional arguments fits `def m(self, p1..pk)` iff min <= n <= max. *)
Definition method_ok (d : dialect) (cs : call_site) : bool :=
  match find (fun m => String.eqb (ms_name m) (cs_method cs)) (d_methods d) with
  | Some m => Nat.leb (ms_min m) (cs_nargs cs) && Nat.leb (cs_nargs cs) (ms_max m)
  | None => false
  end.

Definition cell := (string * string * string)%type.

Definition defects_of (d : dialect) : list cell :=
  map (fun cs => (d_key d, "method", cs_method cs)) (filter (fun cs => negb (method_ok d cs)) call_sites) ++
  map (fun n => (d_key d, "function", n)) (filter (fun n => negb (function_ok d n)) (function_names d)) ++
  map (fun n => (d_key d, "infix", n)) (filter (fun n => negb (infix_ok d n)) (infix_names d)) ++
  map (fun n => (d_key d, "analytic", n)) (filter (fun n => negb (analytic_ok d n)) (map fst ql_analytic)) ++
  (if unnest_ok d then [] else [(d_key d, "phrase", "UnnestPhrase")]) ++
  (if array_ok d then [] else [(d_key d, "phrase", "ArrayPhrase")]) ++
  (if subscript_ok d then [] else [(d_key d, "subscript-format", "Subscript")]).

Definition defect_cells : list cell := flat_map defects_of dialects.

(* the approximation made for DuckDB in qstyle_of (backslash read as an escape in every '...') is exact
   for all fixed text the compiler can put into DuckDB SQL through the tables *)
Definition has_backslash (s : string) : bool := existsb (N.eqb 92) (bytes s).
Definition duckdb_no_backslash : bool :=
  forallb (fun d =>
    negb (String.eqb (d_key d) "duckdb") ||
    forallb (fun n => match eff_function d n with Some t => negb (has_backslash t) | None => true end) (function_names d) &&
    forallb (fun n => match eff_infix d n with Some t => negb (has_backslash t) | None => true end) (infix_names d) &&
    negb (has_backslash (d_unnest d)) && negb (has_backslash (d_array d)) &&
    forallb (fun sf => negb (has_backslash (sf_format sf))) (d_subscript d)) dialects.

(* dead dialect entries (reported in the evidence, not a defect) *)
Definition dead_entries : list (string * string) :=
  flat_map (fun d => map (fun n => (d_key d, n))
                         (filter (fun n => match arity_of n with None => true | Some _ => false end)
                                 (map fst (d_functions d)))) dialects.

Definition engine_keys : list string := map d_key dialects.
