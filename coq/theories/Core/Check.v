(* Executable helpers for the correspondence runs of the Core properties: compare the rows the real
   pipeline returned on SQLite with the reference evaluator's bag. *)
From Coq Require Import List ZArith Bool Arith.
Import ListNotations.
From LV Require Import Core.Syntax Core.Eval.

Definition cell_eqb (x y : field * val) : bool := Nat.eqb (fst x) (fst y) && val_eqb (snd x) (snd y).
Definition row_eqb (a b : row) : bool := list_eqb cell_eqb a b.

Fixpoint remove_one (r : row) (l : list row) : option (list row) :=
  match l with
  | [] => None
  | x :: l' => if row_eqb r x then Some l'
               else match remove_one r l' with Some l'' => Some (x :: l'') | None => None end
  end.

Fixpoint bag_eqb (a b : list row) : bool :=
  match a with
  | [] => match b with [] => true | _ => false end
  | r :: a' => match remove_one r b with Some b' => bag_eqb a' b' | None => false end
  end.

Definition mk_rows (header : list field) (rows : list (list val)) : list row :=
  map (fun vs => combine header vs) rows.

(* columns that hold the result of a List / Set aggregation in some rule: the element order of a list there is
   not part of the statement; lists in these columns are compared sorted, on BOTH sides (a literal list that
   another rule of the predicate puts into such a column is sorted too) *)
Definition norm_cell (bagf : list field) (c : field * val) : field * val :=
  match snd c with
  | VList l => if existsb (Nat.eqb (fst c)) bagf
               then match sort_vals l with Ok s => (fst c, VList s) | Fail _ => c end else c
  | _ => c
  end.
Definition norm_rows (bagf : list field) (rs : list row) : list row := map (map (norm_cell bagf)) rs.

(* a row is a record: a later rule of a predicate may write its named columns in another order than the first
   rule, so the evaluator's rows are brought to the column order of the returned header before the comparison
   (same length and every header column present exactly as a cell, otherwise the row is left as it is and
   the comparison fails) *)
Fixpoint lookup_cell (f : field) (r : row) : option (field * val) :=
  match r with
  | [] => None
  | c :: r' => if Nat.eqb (fst c) f then Some c else lookup_cell f r'
  end.
Definition align_row (header : list field) (r : row) : row :=
  if Nat.eqb (List.length r) (List.length header) then
    match fold_right (fun f acc => match acc, lookup_cell f r with
                                   | Some l, Some c => Some (c :: l)
                                   | _, _ => None
                                   end) (Some []) header with
    | Some r' => r'
    | None => r
    end
  else r.

(* 0: equal bags (and column names); 1: different; 10 + c: the evaluator failed with code c *)
Definition check_pred (D : res db) (q : pred * list field * list field * list (list val)) : nat :=
  let '(p, header, bagf, rows) := q in
  match D with
  | Fail c => (10 + c)%nat
  | Ok D' =>
      match lookup_db p D' with
      | None => 15%nat
      | Some mine => if bag_eqb (norm_rows bagf (map (align_row header) mine)) (norm_rows bagf (mk_rows header rows)) then 0%nat else 1%nat
      end
  end.

Definition check_program (P : program) (qs : list (pred * list field * list field * list (list val))) : list nat :=
  let D := eval_program P [] in map (check_pred D) qs.

(* status of the program alone: 0 ok, else the failure code *)
Definition status (P : program) : nat :=
  match eval_program P [] with Ok _ => 0%nat | Fail c => c end.
