(* Soundness of the model of ElliminateInternalVariables (Core/Elim.v):
   every substitution step, hence the whole loop in whatever order it visits the unifications,
   preserves the solutions of the rule structure projected on the extracted (table column) variables,
   and the head values; the WHERE equalities produced from the remaining unifications are equivalent
   to them for non-null values. *)
From Coq Require Import List ZArith Bool Arith Lia Permutation.
Import ListNotations.
From LV Require Import Core.Syntax Core.Eval Core.Elim.

(* ---------- induction principle for pexpr ---------- *)
Section PInd.
  Variable P : pexpr -> Prop.
  Hypothesis HVar : forall x, P (PVar x).
  Hypothesis HLit : forall v, P (PLit v).
  Hypothesis HBin : forall o a b, P a -> P b -> P (PBin o a b).
  Hypothesis HIf : forall c t e, P c -> P t -> P e -> P (PIf c t e).
  Hypothesis HApp : forall f args, Forall P args -> P (PApp f args).
  Fixpoint pexpr_ind' (e : pexpr) : P e :=
    match e with
    | PVar x => HVar x
    | PLit v => HLit v
    | PBin o a b => HBin o a b (pexpr_ind' a) (pexpr_ind' b)
    | PIf c t e' => HIf c t e' (pexpr_ind' c) (pexpr_ind' t) (pexpr_ind' e')
    | PApp f args =>
        HApp f args ((fix go (l : list pexpr) : Forall P l :=
                        match l with [] => Forall_nil _ | x :: l' => Forall_cons x (pexpr_ind' x) (go l') end) args)
    end.
End PInd.

Lemma pvars_app f args : pvars (PApp f args) = flat_map pvars args.
Proof. simpl. induction args as [|x l IH]; simpl; [reflexivity|]. rewrite IH. reflexivity. Qed.

(* ---------- equality tests are sound ---------- *)
Lemma list_nat_eqb_eq : forall a b, list_eqb Nat.eqb a b = true -> a = b.
Proof.
  induction a as [|x a IH]; intros [|y b]; simpl; try discriminate; [reflexivity|].
  intros H. apply andb_true_iff in H as [H1 H2]. apply Nat.eqb_eq in H1. subst. f_equal. apply IH, H2.
Qed.

Lemma val_eqb_eq : forall a b, val_eqb a b = true -> a = b.
Proof.
  fix IH 1. intros a b. destruct a, b; simpl; try discriminate.
  - reflexivity.
  - intros H. apply Z.eqb_eq in H. subst. reflexivity.
  - intros H. f_equal. apply list_nat_eqb_eq, H.
  - intros H. f_equal. revert l0 H. induction l as [|u l IHl]; intros [|v l0]; try discriminate; [reflexivity|].
    intros H. apply andb_true_iff in H as [H1 H2]. f_equal; [apply IH, H1 | apply IHl, H2].
  - intros H. f_equal. revert fs0 H. induction fs as [|[f u] fs IHf]; intros [|[g v] fs0]; try discriminate; [reflexivity|].
    intros H. apply andb_true_iff in H as [H1 H2]. apply andb_true_iff in H1 as [H0 H1].
    apply Nat.eqb_eq in H0. subst. f_equal; [f_equal; apply IH, H1 | apply IHf, H2].
Qed.

Lemma pexpr_eqb_eq : forall a b, pexpr_eqb a b = true -> a = b.
Proof.
  induction a as [x|v|o a1 a2 IH1 IH2|c t e IHc IHt IHe|f args IH] using pexpr_ind'; intros b; destruct b; simpl; try discriminate.
  - intros H. apply Nat.eqb_eq in H. subst. reflexivity.
  - intros H. apply val_eqb_eq in H. subst. reflexivity.
  - intros H. apply andb_true_iff in H as [H H2]. apply andb_true_iff in H as [H0 H1].
    rewrite (IH1 _ H1), (IH2 _ H2). destruct o, op; try discriminate; reflexivity.
  - intros H. apply andb_true_iff in H as [H H3]. apply andb_true_iff in H as [H1 H2].
    rewrite (IHc _ H1), (IHt _ H2), (IHe _ H3). reflexivity.
  - intros H. apply andb_true_iff in H as [H0 H]. apply Nat.eqb_eq in H0. subst. f_equal.
    revert args0 H. induction IH as [|x l Hx _ IHl]; intros [|y l0]; try discriminate; [reflexivity|].
    intros H. apply andb_true_iff in H as [H1 H2]. f_equal; [apply Hx, H1 | apply IHl, H2].
Qed.

Section Sound.
Variable app : nat -> list val -> val.
Notation peval := (peval app).
Notation solves := (solves app).
Notation output := (output app).

Definition upd (sg : var -> val) (v : var) (x : val) : var -> val :=
  fun y => if Nat.eqb y v then x else sg y.

Lemma peval_ext sg sg' e : (forall x, In x (pvars e) -> sg x = sg' x) -> peval sg e = peval sg' e.
Proof.
  induction e as [x|v|o a b IHa IHb|c t e IHc IHt IHe|f args IH] using pexpr_ind'; intros H.
  - apply H. left. reflexivity.
  - reflexivity.
  - simpl. rewrite IHa, IHb; [reflexivity | |]; intros x Hx; apply H; simpl; rewrite !in_app_iff; auto.
  - simpl. rewrite IHc, IHt, IHe; [reflexivity | | |]; intros x Hx; apply H; simpl; rewrite !in_app_iff; auto.
  - cbn [Elim.peval]. f_equal. rewrite pvars_app in H.
    induction IH as [|x l Hx _ IHl]; simpl; [reflexivity|]. f_equal.
    + apply Hx. intros y Hy. apply H. simpl. apply in_or_app. left. exact Hy.
    + apply IHl. intros y Hy. apply H. simpl. apply in_or_app. right. exact Hy.
Qed.

(* the substitution lemma *)
Lemma peval_subst sg v r e : peval sg (psubst v r e) = peval (upd sg v (peval sg r)) e.
Proof.
  induction e as [x|u|o a b IHa IHb|c t e IHc IHt IHe|f args IH] using pexpr_ind'.
  - simpl. unfold upd. destruct (Nat.eqb x v); reflexivity.
  - reflexivity.
  - simpl. rewrite IHa, IHb. reflexivity.
  - simpl. rewrite IHc, IHt, IHe. reflexivity.
  - cbn [psubst Elim.peval]. f_equal. rewrite map_map.
    induction IH as [|x l Hx _ IHl]; simpl; [reflexivity|]. rewrite Hx, IHl. reflexivity.
Qed.

Lemma memv_In x l : memv x l = true <-> In x l.
Proof.
  unfold memv. rewrite existsb_exists. split.
  - intros [y [H1 H2]]. apply Nat.eqb_eq in H2. subst. exact H1.
  - intros H. exists x. split; [exact H | apply Nat.eqb_refl].
Qed.

Lemma peval_upd_fresh sg v x e : memv v (pvars e) = false -> peval (upd sg v x) e = peval sg e.
Proof.
  intros H. apply peval_ext. intros y Hy. unfold upd. destruct (Nat.eqb y v) eqn:E; [|reflexivity].
  apply Nat.eqb_eq in E. subst. apply memv_In in Hy. congruence.
Qed.

(* ---------- the relation preserved by the loop ---------- *)
(* E: the extracted variables (row choice).  s' represents s: every solution of s solves s' with the
   same head values, and every solution of s' is a solution of s after re-defining variables outside E. *)
Definition represents (E : list var) (s s' : rs) : Prop :=
  (forall sg, solves sg s -> solves sg s' /\ output sg s' = output sg s) /\
  (forall sg', solves sg' s' ->
     exists sg, solves sg s /\ output sg s = output sg' s' /\ forall x, In x E -> sg x = sg' x).

Lemma represents_refl E s : represents E s s.
Proof. split; intros sg H; [split; [exact H | reflexivity] | exists sg; auto]. Qed.

Lemma represents_trans E s1 s2 s3 : represents E s1 s2 -> represents E s2 s3 -> represents E s1 s3.
Proof.
  intros [F1 B1] [F2 B2]. split.
  - intros sg H. destruct (F1 sg H) as [H2 O2]. destruct (F2 sg H2) as [H3 O3]. split; [exact H3 | congruence].
  - intros sg3 H3. destruct (B2 sg3 H3) as [sg2 [H2 [O2 A2]]]. destruct (B1 sg2 H2) as [sg1 [H1 [O1 A1]]].
    exists sg1. split; [exact H1|]. split; [congruence|]. intros x Hx. rewrite A1, A2 by exact Hx. reflexivity.
Qed.

Lemma output_subst sg v r s : output sg (subst_rs v r s) = output (upd sg v (peval sg r)) s.
Proof.
  unfold output, subst_rs. cbn [sel]. rewrite map_map. apply map_ext. intros [f e]. simpl.
  rewrite peval_subst. reflexivity.
Qed.

Lemma solves_subst sg v r s : solves sg (subst_rs v r s) <-> solves (upd sg v (peval sg r)) s.
Proof.
  unfold solves, subst_rs. cbn [unifs cons]. split; intros [H1 H2]; split.
  - intros l r' Hin. rewrite <- !peval_subst. apply H1.
    apply in_map_iff. exists (l, r'). split; [reflexivity | exact Hin].
  - intros c Hin. rewrite <- peval_subst. apply H2. apply in_map. exact Hin.
  - intros l r' Hin. apply in_map_iff in Hin as [[l0 r0] [E Hin]]. simpl in E. inversion E. subst.
    rewrite !peval_subst. apply H1, Hin.
  - intros c Hin. apply in_map_iff in Hin as [c0 [E Hin]]. subst. rewrite peval_subst. apply H2, Hin.
Qed.

Lemma solves_ext sg sg' s : (forall x, sg x = sg' x) -> solves sg s -> solves sg' s.
Proof.
  intros H [H1 H2]. split.
  - intros l r Hin. rewrite <- (peval_ext sg sg' l), <- (peval_ext sg sg' r) by (intros; apply H). apply H1, Hin.
  - intros c Hin. rewrite <- (peval_ext sg sg' c) by (intros; apply H). apply H2, Hin.
Qed.

Lemma output_ext sg sg' s : (forall x, sg x = sg' x) -> output sg s = output sg' s.
Proof.
  intros H. unfold output. apply map_ext. intros [f e]. simpl. f_equal. apply peval_ext. intros; apply H.
Qed.

(* one substitution step v := r, justified by a unification (PVar v, r) or (r, PVar v) of s *)
Theorem step_represents E s v r :
  memv v E = false -> memv v (pvars r) = false ->
  (In (PVar v, r) (unifs s) \/ In (r, PVar v) (unifs s)) ->
  represents E s (subst_rs v r s).
Proof.
  intros HE Hv Hin. split.
  - intros sg H.
    assert (Ev : sg v = peval sg r).
    { destruct H as [H1 _]. destruct Hin as [Hin|Hin]; [exact (H1 _ _ Hin) | symmetry; exact (H1 _ _ Hin)]. }
    assert (X : forall x, sg x = upd sg v (peval sg r) x).
    { intros x. unfold upd. destruct (Nat.eqb x v) eqn:E1; [|reflexivity]. apply Nat.eqb_eq in E1. subst. exact Ev. }
    split.
    + apply solves_subst. eapply solves_ext; [exact X | exact H].
    + rewrite output_subst. symmetry. apply output_ext, X.
  - intros sg' H. exists (upd sg' v (peval sg' r)). split; [apply solves_subst, H|]. split.
    + symmetry. apply output_subst.
    + intros x Hx. unfold upd. destruct (Nat.eqb x v) eqn:E1; [|reflexivity].
      apply Nat.eqb_eq in E1. subst. apply memv_In in Hx. congruence.
Qed.

(* dropping u with u.left == u.right *)
Lemma drop_trivial_represents E s : represents E s (drop_trivial s).
Proof.
  assert (S : forall sg, solves sg s <-> solves sg (drop_trivial s)).
  { intros sg. unfold solves, drop_trivial. cbn [unifs cons]. split; intros [H1 H2]; split; try exact H2.
    - intros l r Hin. apply filter_In in Hin as [Hin _]. apply H1, Hin.
    - intros l r Hin. destruct (pexpr_eqb l r) eqn:Eq.
      + apply pexpr_eqb_eq in Eq. subst. reflexivity.
      + apply H1. apply filter_In. split; [exact Hin|]. simpl. rewrite Eq. reflexivity. }
  split.
  - intros sg H. split; [apply S, H | reflexivity].
  - intros sg H. exists sg. split; [apply S, H | auto].
Qed.

Section Loop.
Variable is_x : var -> bool.
Variable E V : list var.
Hypothesis V_internal : forall v, memv v V = true -> memv v E = false.

Lemma fires_spec l r v : fires is_x E V l r = Some v ->
  l = PVar v /\ memv v E = false /\ memv v (pvars r) = false.
Proof.
  unfold fires. destruct (pexpr_eqb l r); [discriminate|]. destruct l; try discriminate.
  destruct (memv x V) eqn:Ev; simpl; [|discriminate].
  destruct (negb (memv x (pvars r))) eqn:En; simpl; [|discriminate].
  destruct (subsetv (pvars r) E || negb (is_x x)); [|discriminate].
  intros H. inversion H. subst. split; [reflexivity|]. split; [apply V_internal, Ev|].
  apply negb_true_iff in En. exact En.
Qed.

Lemma visit_represents idx s : represents E s (fst (visit is_x E V idx s)).
Proof.
  unfold visit. destruct (nth_error (unifs s) idx) as [[l r]|] eqn:En; [|apply represents_refl].
  assert (R1 : represents E s (fst (match fires is_x E V l r with
                                     | Some v => (subst_rs v r s, true) | None => (s, false) end))).
  { destruct (fires is_x E V l r) as [v|] eqn:Ef; [|apply represents_refl].
    destruct (fires_spec _ _ _ Ef) as [El [HE Hv]]. subst l. simpl.
    apply step_represents; [exact HE | exact Hv | left; eapply nth_error_In, En]. }
  destruct (match fires is_x E V l r with Some v => (subst_rs v r s, true) | None => (s, false) end) as [s1 c1].
  simpl in R1. destruct (nth_error (unifs s1) idx) as [[l1 r1]|] eqn:En1; [|exact R1].
  destruct (fires is_x E V r1 l1) as [v|] eqn:Ef; [|exact R1].
  destruct (fires_spec _ _ _ Ef) as [El [HE Hv]]. subst r1. simpl.
  eapply represents_trans; [exact R1|].
  apply step_represents; [exact HE | exact Hv | right; eapply nth_error_In, En1].
Qed.

Lemma pass_represents n : forall idx s c, represents E s (fst (pass is_x E V n idx s c)).
Proof.
  induction n as [|n IH]; intros idx s c; simpl; [apply represents_refl|].
  pose proof (visit_represents idx s) as R. destruct (visit is_x E V idx s) as [s' c']. simpl in R.
  eapply represents_trans; [exact R | apply IH].
Qed.

Lemma rounds_represents fuel : forall s s', rounds is_x E V fuel s = Some s' -> represents E s s'.
Proof.
  induction fuel as [|fuel IH]; intros s s' H; [discriminate|]. cbn [rounds] in H. cbv zeta in H.
  remember (pass is_x E V (length (unifs (drop_trivial s))) 0 (drop_trivial s) false) as p eqn:Ep.
  pose proof (pass_represents (length (unifs (drop_trivial s))) 0 (drop_trivial s) false) as R.
  rewrite <- Ep in R. destruct p as [s1 ch]. simpl in R.
  assert (R0 : represents E s s1) by (eapply represents_trans; [apply drop_trivial_represents | exact R]).
  destruct ch.
  - eapply represents_trans; [exact R0 | apply IH, H].
  - inversion H. subst. exact R0.
Qed.
End Loop.

Lemma internal_not_extracted E s v : memv v (internal_vars E s) = true -> memv v E = false.
Proof.
  intros H. apply memv_In in H. unfold internal_vars in H. apply filter_In in H as [_ H].
  apply negb_true_iff in H. exact H.
Qed.

(* the structure handed to AsSql: remaining unifications as WHERE equalities *)
Definition where_holds (sg : var -> val) (s : rs) : Prop :=
  (forall l r, In (l, r) (unifs s) -> pexpr_eqb l r = false -> sql_eq (peval sg l) (peval sg r) = true) /\
  (forall c, In c (cons s) -> truthy (peval sg c) = true).

Lemma truthy_OEq sg l r : truthy (peval sg (PBin OEq l r)) = sql_eq (peval sg l) (peval sg r).
Proof.
  cbn [Elim.peval]. unfold eval_bin, cmp_val, sql_eq.
  destruct (is_null (peval sg l)), (is_null (peval sg r)); simpl; try reflexivity.
  destruct (val_eqb (peval sg l) (peval sg r)); reflexivity.
Qed.

(* ELIMINATION IS SOUND: if eliminate succeeds with s', then
   (1) no internal variable is left in what precedes the WHERE conversion: s' mentions only extracted ones
       (this is checked by the model: internal_vars = []),
   (2) every solution of the original structure solves the eliminated structure with the same head values,
   (3) every valuation satisfying the final WHERE comes from a solution of the original structure that agrees
       on the extracted variables and has the same head values. *)
Theorem eliminate_sound is_x E s s' :
  eliminate is_x E s = Some (inr s') ->
  exists s1,
    represents E s s1 /\ internal_vars E s1 = [] /\ sel s' = sel s1 /\
    (forall sg, solves sg s' <-> where_holds sg s1).
Proof.
  unfold eliminate. intros H.
  destruct (rounds is_x E (internal_vars E s) (S (S (length (internal_vars E s)))) s) as [s1|] eqn:Er; [|discriminate].
  destruct (internal_vars E s1) eqn:Ei; [|discriminate].
  inversion H. subst s'. clear H. exists s1. split.
  - eapply rounds_represents; [|exact Er]. intros v Hv. eapply internal_not_extracted, Hv.
  - split; [exact Ei|]. split; [reflexivity|]. intros sg. unfold Elim.solves, where_holds. cbn [unifs cons]. split.
    + intros [_ H2]. split.
      * intros l r Hin Hne. rewrite <- truthy_OEq. apply H2. apply in_or_app. right.
        apply in_map_iff. exists (l, r). split; [reflexivity|]. apply filter_In. split; [exact Hin|].
        simpl. rewrite Hne. reflexivity.
      * intros c Hin. apply H2. apply in_or_app. left. exact Hin.
    + intros [H1 H2]. split; [intros l r []|]. intros c Hin. apply in_app_or in Hin as [Hin|Hin]; [apply H2, Hin|].
      apply in_map_iff in Hin as [[l r] [Ec Hin]]. subst c. apply filter_In in Hin as [Hin Hne].
      cbn [fst snd] in *. apply negb_true_iff in Hne. rewrite truthy_OEq. apply H1; assumption.
Qed.

(* WHERE equalities versus unifications: the same for values that are not null *)
Theorem where_is_unification sg s :
  where_holds sg s -> solves sg s.
Proof.
  intros [H1 H2]. split; [|exact H2]. intros l r Hin. destruct (pexpr_eqb l r) eqn:Eq.
  - apply pexpr_eqb_eq in Eq. subst. reflexivity.
  - specialize (H1 l r Hin Eq). unfold sql_eq in H1. apply andb_true_iff in H1 as [_ H1]. apply val_eqb_eq, H1.
Qed.

Lemma val_eqb_refl : forall a, val_eqb a a = true.
Proof.
  fix IH 1. intros a. destruct a; simpl.
  - reflexivity.
  - apply Z.eqb_refl.
  - induction s as [|c s IHs]; simpl; [reflexivity|]. rewrite Nat.eqb_refl, IHs. reflexivity.
  - induction l as [|u l IHl]; simpl; [reflexivity|]. rewrite IH, IHl. reflexivity.
  - induction fs as [|[f u] fs IHf]; simpl; [reflexivity|]. rewrite Nat.eqb_refl, IH, IHf. reflexivity.
Qed.

Theorem unification_is_where_when_not_null sg s :
  solves sg s ->
  (forall l r, In (l, r) (unifs s) -> peval sg l <> VNull) ->
  where_holds sg s.
Proof.
  intros [H1 H2] Hn. split; [|exact H2]. intros l r Hin _. unfold sql_eq.
  rewrite <- (H1 l r Hin). rewrite val_eqb_refl.
  assert (is_null (peval sg l) = false) by (destruct (peval sg l) eqn:E; try reflexivity; exfalso; eapply Hn; eauto).
  rewrite H. reflexivity.
Qed.

End Sound.

(* ---------- correctness per row choice ---------- *)
Section RowChoice.
Variable app : nat -> list val -> val.

Lemma filter_nil_all {A} (f : A -> bool) l : filter f l = [] -> forall x, In x l -> f x = false.
Proof.
  induction l as [|a l IH]; simpl; intros H x Hin; [contradiction|].
  destruct (f a) eqn:E; [discriminate|]. destruct Hin as [->|Hin]; [exact E | apply IH; assumption].
Qed.

Lemma no_internal_all_extracted E s : internal_vars E s = [] -> forall x, In x (rs_vars s) -> In x E.
Proof.
  intros H x Hx. unfold internal_vars in H. pose proof (filter_nil_all _ _ H x Hx) as Hf.
  apply negb_false_iff in Hf. apply memv_In, Hf.
Qed.

Lemma in_rs_vars_sel s f e x : In (f, e) (sel s) -> In x (pvars e) -> In x (rs_vars s).
Proof.
  intros H Hx. unfold rs_vars. apply in_or_app. left. apply in_flat_map. exists (f, e). auto.
Qed.
Lemma in_rs_vars_unif s l r x : In (l, r) (unifs s) -> In x (pvars l) \/ In x (pvars r) -> In x (rs_vars s).
Proof.
  intros H Hx. unfold rs_vars. apply in_or_app. right. apply in_or_app. left. apply in_flat_map.
  exists (l, r). split; [exact H|]. simpl. apply in_or_app. exact Hx.
Qed.
Lemma in_rs_vars_cons s c x : In c (cons s) -> In x (pvars c) -> In x (rs_vars s).
Proof.
  intros H Hx. unfold rs_vars. apply in_or_app. right. apply in_or_app. right. apply in_flat_map. exists c. auto.
Qed.

(* a structure is read only through the variables it mentions *)
Lemma where_holds_agree sg sg' s : (forall x, In x (rs_vars s) -> sg x = sg' x) ->
  where_holds app sg s -> where_holds app sg' s.
Proof.
  intros A [H1 H2]. split.
  - intros l r Hin Hne.
    rewrite <- (peval_ext app sg sg' l), <- (peval_ext app sg sg' r).
    + apply H1; assumption.
    + intros x Hx. apply A. eapply in_rs_vars_unif; eauto.
    + intros x Hx. apply A. eapply in_rs_vars_unif; eauto.
  - intros c Hin. rewrite <- (peval_ext app sg sg' c); [apply H2, Hin|].
    intros x Hx. apply A. eapply in_rs_vars_cons; eauto.
Qed.

Lemma output_agree sg sg' s : (forall x, In x (rs_vars s) -> sg x = sg' x) ->
  output app sg s = output app sg' s.
Proof.
  intros A. unfold output. apply map_ext_in. intros [f e] Hin. simpl. f_equal.
  apply peval_ext. intros x Hx. apply A. eapply in_rs_vars_sel; eauto.
Qed.

(* THE WHERE AND SELECT COMPUTED BY ELIMINATION ARE RIGHT FOR EVERY ROW CHOICE.
   rho: the values of the extracted variables (one row per table of the FROM list).
   (<-) whenever rho passes the final WHERE there is a solution of the rule structure that extends rho on the
        extracted variables, and the final SELECT computes its head values;
   (->) every solution of the rule structure whose remaining equalities compare non-null values passes the
        final WHERE with the same head values. *)
Theorem eliminate_row_choice is_x E s s' : eliminate is_x E s = Some (inr s') ->
  forall rho : var -> val,
  (solves app rho s' ->
     exists sg, (forall x, In x E -> sg x = rho x) /\ solves app sg s /\ output app sg s = output app rho s') /\
  (forall sg, (forall x, In x E -> sg x = rho x) -> solves app sg s ->
     (forall s1 l r, represents app E s s1 -> In (l, r) (unifs s1) -> peval app sg l <> VNull) ->
     solves app rho s' /\ output app rho s' = output app sg s).
Proof.
  intros H rho. destruct (eliminate_sound app is_x E s s' H) as [s1 [R [Hint [Hsel Hw]]]].
  assert (Hout : forall sg, output app sg s' = output app sg s1).
  { intros sg. unfold output. rewrite Hsel. reflexivity. }
  split.
  - intros Hs. apply Hw in Hs. pose proof (where_is_unification app rho s1 Hs) as Hs1.
    destruct R as [_ B]. destruct (B rho Hs1) as [sg [Hsg [Ho A]]].
    exists sg. split; [exact A|]. split; [exact Hsg|]. rewrite Ho, Hout. reflexivity.
  - intros sg A Hsg Hnn. destruct R as [F B]. destruct (F sg Hsg) as [Hs1 Ho].
    assert (Agree : forall x, In x (rs_vars s1) -> sg x = rho x).
    { intros x Hx. apply A. eapply no_internal_all_extracted; eauto. }
    assert (Hwh : where_holds app sg s1).
    { apply unification_is_where_when_not_null; [exact Hs1|]. intros l r Hin. eapply Hnn; [|exact Hin]. split; assumption. }
    split.
    + apply Hw. eapply where_holds_agree; [exact Agree | exact Hwh].
    + rewrite Hout, <- Ho. symmetry. apply output_agree, Agree.
Qed.
End RowChoice.

(* ---------- two visiting orders that both succeed give the same answers ---------- *)
Section Orders.
Variable app : nat -> list val -> val.

Definition same_structure (s t : rs) : Prop :=
  sel s = sel t /\ Permutation (unifs s) (unifs t) /\ Permutation (cons s) (cons t).

Lemma solves_same_structure sg s t : same_structure s t -> solves app sg s -> solves app sg t.
Proof.
  intros [_ [Pu Pc]] [H1 H2]. split.
  - intros l r Hin. apply H1. eapply Permutation_in; [apply Permutation_sym, Pu | exact Hin].
  - intros c Hin. apply H2. eapply Permutation_in; [apply Permutation_sym, Pc | exact Hin].
Qed.

Theorem elimination_orders_agree is_x E s t s' t' :
  same_structure s t ->
  eliminate is_x E s = Some (inr s') -> eliminate is_x E t = Some (inr t') ->
  forall rho, solves app rho s' ->
  (forall sg t1 l r, represents app E t t1 -> In (l, r) (unifs t1) -> peval app sg l <> VNull) ->
  solves app rho t' /\ output app rho t' = output app rho s'.
Proof.
  intros Same Hs Ht rho Hrho Hnn.
  destruct (eliminate_row_choice app is_x E s s' Hs rho) as [B _].
  destruct (B Hrho) as [sg [A [Hsg Ho]]].
  destruct (eliminate_row_choice app is_x E t t' Ht rho) as [_ F].
  assert (Hsgt : solves app sg t) by (eapply solves_same_structure; eassumption).
  destruct (F sg A Hsgt (fun t1 l r => Hnn sg t1 l r)) as [H1 H2]. split; [exact H1|].
  rewrite H2, <- Ho. unfold output. destruct Same as [E1 _]. rewrite E1. reflexivity.
Qed.
End Orders.
