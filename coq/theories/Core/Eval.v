(* Reference evaluator for Core Logica: the documented bag semantics, written for readability.
   - an expression denotes a bag of values (a functional call multiplies derivations);
   - a conjunction multiplies, a disjunction / several rules add;
   - a combine / negation is evaluated per binding of the outer variables;
   - a rule whose variables cannot be determined is an error (Fail 1), never a result.
   Fuel only bounds the nesting depth (calls, combines); Fail 3 = out of fuel. *)
From Coq Require Import List ZArith Bool Arith.
Import ListNotations.
From LV Require Import Core.Syntax.
Local Open Scope Z_scope.

(* ---------- result monad ---------- *)
Inductive res (A : Type) := Ok (a : A) | Fail (code : nat).
Arguments Ok {A} a.
Arguments Fail {A} code.
Definition E_UNSAFE := 1%nat.   (* not range restricted *)
Definition E_TYPE := 2%nat.     (* ill-typed / missing field *)
Definition E_FUEL := 3%nat.
Definition E_DISTINCT := 4%nat. (* inconsistent distinct / aggregation without distinct *)
Definition E_UNDEF := 5%nat.    (* unknown predicate *)

Definition bind {A B} (x : res A) (f : A -> res B) : res B :=
  match x with Ok a => f a | Fail c => Fail c end.
Notation "x <- e ;; f" := (bind e (fun x => f)) (at level 61, e at next level, right associativity).

Fixpoint mapM {A B} (f : A -> res B) (l : list A) : res (list B) :=
  match l with
  | [] => Ok []
  | a :: l' => b <- f a ;; bs <- mapM f l' ;; Ok (b :: bs)
  end.

Definition flat_mapM {A B} (f : A -> res (list B)) (l : list A) : res (list B) :=
  ls <- mapM f l ;; Ok (concat ls).

(* all ways of choosing one element from each bag *)
Fixpoint choices {A} (ls : list (list A)) : list (list A) :=
  match ls with
  | [] => [[]]
  | l :: ls' => flat_map (fun a => map (cons a) (choices ls')) l
  end.

(* ---------- values ---------- *)
Fixpoint list_eqb {A} (eqb : A -> A -> bool) (a b : list A) : bool :=
  match a, b with
  | [], [] => true
  | x :: a', y :: b' => eqb x y && list_eqb eqb a' b'
  | _, _ => false
  end.

Fixpoint val_eqb (a b : val) {struct a} : bool :=
  match a, b with
  | VNull, VNull => true
  | VInt x, VInt y => Z.eqb x y
  | VStr x, VStr y => list_eqb Nat.eqb x y
  | VList x, VList y =>
      (fix go (l1 l2 : list val) : bool :=
         match l1, l2 with
         | [], [] => true
         | u :: l1', v :: l2' => val_eqb u v && go l1' l2'
         | _, _ => false
         end) x y
  | VRec x, VRec y =>
      (fix go (l1 l2 : list (field * val)) : bool :=
         match l1, l2 with
         | [], [] => true
         | (f, u) :: l1', (g, v) :: l2' => Nat.eqb f g && val_eqb u v && go l1' l2'
         | _, _ => false
         end) x y
  | _, _ => false
  end.

Definition is_null (v : val) : bool := match v with VNull => true | _ => false end.

(* SQL equality as used in WHERE: null is equal to nothing *)
Definition sql_eq (a b : val) : bool := negb (is_null a) && negb (is_null b) && val_eqb a b.

Fixpoint str_ltb (a b : list nat) : bool :=
  match a, b with
  | _, [] => false
  | [], _ :: _ => true
  | x :: a', y :: b' => Nat.ltb x y || (Nat.eqb x y && str_ltb a' b')
  end.

(* order used for Min/Max/sorting; None when the values are not comparable *)
Definition val_ltb (a b : val) : option bool :=
  match a, b with
  | VInt x, VInt y => Some (Z.ltb x y)
  | VStr x, VStr y => Some (str_ltb x y)
  | _, _ => None
  end.

Definition truthy (v : val) : bool := match v with VInt z => negb (Z.eqb z 0) | _ => false end.
Definition of_bool (b : bool) : val := VInt (if b then 1 else 0).

Definition row := list (field * val).
Definition db := list (pred * list row).
Definition env := list (var * val).

Fixpoint lookup_var (x : var) (en : env) : option val :=
  match en with [] => None | (y, v) :: en' => if Nat.eqb x y then Some v else lookup_var x en' end.
Fixpoint lookup_field {A} (f : field) (r : list (field * A)) : option A :=
  match r with [] => None | (g, v) :: r' => if Nat.eqb f g then Some v else lookup_field f r' end.
Fixpoint lookup_db (p : pred) (D : db) : option (list row) :=
  match D with [] => None | (q, rs) :: D' => if Nat.eqb p q then Some rs else lookup_db p D' end.
Fixpoint find_pdef (p : pred) (P : program) : option pdef :=
  match P with [] => None | d :: P' => if Nat.eqb p (p_name d) then Some d else find_pdef p P' end.

Definition memv (x : var) (l : list var) : bool := existsb (Nat.eqb x) l.

(* ---------- variables ---------- *)
(* deep = false: do not look inside combines and negations (they open a scope of their own) *)
Fixpoint vars_e (deep : bool) (e : expr) {struct e} : list var :=
  match e with
  | ENull | EInt _ | EStr _ => []
  | EVar x => [x]
  | EBin _ a b => vars_e deep a ++ vars_e deep b
  | EList es => (fix go (l : list expr) := match l with [] => [] | x :: l' => vars_e deep x ++ go l' end) es
  | ERec fs => (fix go (l : list (field * expr)) :=
                  match l with [] => [] | (_, x) :: l' => vars_e deep x ++ go l' end) fs
  | EField e' _ => vars_e deep e'
  | EIf c t e' => vars_e deep c ++ vars_e deep t ++ vars_e deep e'
  | EFun _ args => (fix go (l : list expr) := match l with [] => [] | x :: l' => vars_e deep x ++ go l' end) args
  | ECall _ args => (fix go (l : list (field * expr)) :=
                       match l with [] => [] | (_, x) :: l' => vars_e deep x ++ go l' end) args
  | ECombine _ e' body =>
      if deep then
        vars_e deep e' ++
        (fix go (l : list conj) := match l with [] => [] | c :: l' => vars_c deep c ++ go l' end) body
      else []
  end
with vars_c (deep : bool) (c : conj) {struct c} : list var :=
  match c with
  | CAtom _ args => (fix go (l : list (field * expr)) :=
                       match l with [] => [] | (_, x) :: l' => vars_e deep x ++ go l' end) args
  | CCond e => vars_e deep e
  | CUnify a b => vars_e deep a ++ vars_e deep b
  | CIn x l => vars_e deep x ++ vars_e deep l
  | CNot body =>
      if deep then
        (fix go (l : list conj) := match l with [] => [] | c' :: l' => vars_c deep c' ++ go l' end) body
      else []
  end.

Definition vars_cs (deep : bool) (cs : list conj) : list var := flat_map (vars_c deep) cs.

Fixpoint vars_head (h : list (field * hval)) : list var :=
  match h with
  | [] => []
  | (_, HExpr e) :: h' => vars_e false e ++ vars_head h'
  | (_, HAgg _ e) :: h' => vars_e false e ++ vars_head h'
  end.

(* ---------- disjunctive normal form of a body ---------- *)
Fixpoint dnf (p : prop) : list (list conj) :=
  match p with
  | PConj c => [[c]]
  | PAnd ps =>
      (fix go (l : list prop) : list (list conj) :=
         match l with
         | [] => [[]]
         | q :: l' => flat_map (fun d1 => map (fun d2 => d1 ++ d2) (go l')) (dnf q)
         end) ps
  | POr ps =>
      (fix go (l : list prop) : list (list conj) :=
         match l with [] => [] | q :: l' => dnf q ++ go l' end) ps
  end.

(* ---------- scheduling: an order in which every conjunct can be evaluated ---------- *)
Section Schedule.
  Variable scope : list var.     (* variables of the enclosing scopes (incl. this conjunction and the head) *)

  Definition bare_unbound (bound : list var) (e : expr) : option var :=
    match e with EVar x => if memv x bound then None else Some x | _ => None end.

  (* every variable visible from outside must be bound; combine-local ones are exempt *)
  Definition ready_e (bound : list var) (e : expr) : bool :=
    forallb (fun x => memv x bound) (vars_e false e) &&
    forallb (fun x => memv x bound || negb (memv x scope)) (vars_e true e).

  Definition is_bare (e : expr) : bool := match e with EVar _ => true | _ => false end.

  Definition ready (bound : list var) (c : conj) : bool :=
    match c with
    | CAtom _ args => forallb (fun fe => is_bare (snd fe) || ready_e bound (snd fe)) args
    | CCond e => ready_e bound e
    | CUnify a b =>
        match bare_unbound bound a, bare_unbound bound b with
        | Some _, Some _ => false
        | Some _, None => ready_e bound b
        | None, Some _ => ready_e bound a
        | None, None => ready_e bound a && ready_e bound b
        end
    | CIn x l => ready_e bound l && (is_bare x || ready_e bound x)
    | CNot body => forallb (fun x => memv x bound || negb (memv x scope)) (vars_cs true body)
    end.

  Definition binds (bound : list var) (c : conj) : list var :=
    match c with
    | CAtom _ args => flat_map (fun fe => match snd fe with EVar x => [x] | _ => [] end) args
    | CUnify a b =>
        match bare_unbound bound a, bare_unbound bound b with
        | Some x, None => [x]
        | None, Some x => [x]
        | _, _ => []
        end
    | CIn x _ => match x with EVar y => [y] | _ => [] end
    | _ => []
    end.

  Fixpoint pick (bound : list var) (seen cs : list conj) : option (conj * list conj) :=
    match cs with
    | [] => None
    | c :: cs' => if ready bound c then Some (c, rev seen ++ cs') else pick bound (c :: seen) cs'
    end.

  Fixpoint schedule (fuel : nat) (bound : list var) (cs : list conj) : option (list conj) :=
    match cs with
    | [] => Some []
    | _ =>
        match fuel with
        | O => None
        | S fuel' =>
            match pick bound [] cs with
            | Some (c, rest) =>
                match schedule fuel' (binds bound c ++ bound) rest with
                | Some l => Some (c :: l)
                | None => None
                end
            | None => None
            end
        end
    end.
End Schedule.

(* ---------- operators, built-ins, aggregates ---------- *)
Definition cmp_val (op : binop) (a b : val) : res val :=
  if is_null a || is_null b then Ok VNull else
  match op with
  | OEq => Ok (of_bool (val_eqb a b))
  | ONe => Ok (of_bool (negb (val_eqb a b)))
  | _ =>
      match val_ltb a b, val_ltb b a with
      | Some lt, Some gt =>
          Ok (of_bool (match op with
                       | OLt => lt | OGt => gt | OLe => negb gt | OGe => negb lt | _ => false end))
      | _, _ => Fail E_TYPE
      end
  end.

Definition eval_bin (op : binop) (a b : val) : res val :=
  match op with
  | OAdd | OSub | OMul =>
      match a, b with
      | VInt x, VInt y => Ok (VInt (match op with OAdd => x + y | OSub => x - y | _ => x * y end))
      | VNull, (VInt _ | VNull) | VInt _, VNull => Ok VNull
      | _, _ => Fail E_TYPE
      end
  | OConcat =>
      match a, b with
      | VStr x, VStr y => Ok (VStr (x ++ y))
      | VNull, (VStr _ | VNull) | VStr _, VNull => Ok VNull
      | _, _ => Fail E_TYPE
      end
  | OAnd =>   (* SQL three-valued logic: false AND null = false *)
      match a, b with
      | VInt x, VInt y => Ok (of_bool (truthy a && truthy b))
      | VInt x, VNull | VNull, VInt x => if Z.eqb x 0 then Ok (of_bool false) else Ok VNull
      | VNull, VNull => Ok VNull
      | _, _ => Fail E_TYPE
      end
  | OOr =>    (* true OR null = true *)
      match a, b with
      | VInt x, VInt y => Ok (of_bool (truthy a || truthy b))
      | VInt x, VNull | VNull, VInt x => if Z.eqb x 0 then Ok VNull else Ok (of_bool true)
      | VNull, VNull => Ok VNull
      | _, _ => Fail E_TYPE
      end
  | _ => cmp_val op a b
  end.

Fixpoint range_list (n : nat) (from : Z) : list val :=
  match n with O => [] | S n' => VInt from :: range_list n' (from + 1) end.

Fixpoint digits (fuel : nat) (z : Z) (acc : list nat) : list nat :=
  match fuel with
  | O => acc
  | S f => let d := Z.to_nat (z mod 10) in
           if Z.ltb z 10 then (48 + d)%nat :: acc else digits f (z / 10) ((48 + d)%nat :: acc)
  end.
Definition show_int (z : Z) : list nat :=
  if Z.ltb z 0 then 45%nat :: digits 40 (- z) [] else digits 40 z [].

Definition pick_ext (want_lt : bool) (vs : list val) : res val :=
  match vs with
  | [] => Ok VNull
  | v :: vs' =>
      fold_left (fun acc x =>
                   a <- acc ;;
                   match val_ltb x a with
                   | Some lt => if Bool.eqb lt want_lt then (if val_eqb x a then Ok a else Ok x) else Ok a
                   | None => Fail E_TYPE
                   end) vs' (Ok v)
  end.

Definition eval_builtin (f : builtin) (args : list val) : res val :=
  match f, args with
  | BSize, [VList l] => Ok (VInt (Z.of_nat (length l)))
  | BSize, [VNull] => Ok VNull
  | BRange, [VInt n] => Ok (VList (range_list (Z.to_nat n) 0))
  | BElement, [VList l; VInt i] =>
      if Z.ltb i 0 then Ok VNull else Ok (nth (Z.to_nat i) l VNull)
  | BIsNull, [v] => Ok (of_bool (is_null v))
  | BNot, [VInt z] => Ok (of_bool (Z.eqb z 0))
  | BNot, [VNull] => Ok VNull
  | BToString, [VInt z] => Ok (VStr (show_int z))
  | BToString, [VStr s] => Ok (VStr s)
  | BToString, [VNull] => Ok VNull
  | BGreatest, [a; b] => if is_null a || is_null b then Ok VNull else pick_ext false [a; b]
  | BLeast, [a; b] => if is_null a || is_null b then Ok VNull else pick_ext true [a; b]
  | BAbs, [VInt z] => Ok (VInt (Z.abs z))
  | BAbs, [VNull] => Ok VNull
  | _, _ => Fail E_TYPE
  end.

Fixpoint insert_sorted (v : val) (l : list val) : res (list val) :=
  match l with
  | [] => Ok [v]
  | x :: l' =>
      match val_ltb x v with
      | Some true => r <- insert_sorted v l' ;; Ok (x :: r)
      | Some false => Ok (v :: l)
      | None => Fail E_TYPE
      end
  end.
Definition sort_vals (l : list val) : res (list val) :=
  fold_left (fun acc v => a <- acc ;; insert_sorted v a) l (Ok []).

Fixpoint dedup_sorted (l : list val) : list val :=
  match l with
  | [] => []
  | x :: l' => match l' with
               | y :: _ => if val_eqb x y then dedup_sorted l' else x :: dedup_sorted l'
               | [] => [x]
               end
  end.

Definition arg_ext (want_lt : bool) (vs : list val) : res val :=
  (* values are records {arg (field 100), value (field 101)}; null values are ignored *)
  let pairs := flat_map (fun v => match v with
                                  | VRec [(_, a); (_, b)] => if is_null b then [] else [(a, b)]
                                  | _ => [] end) vs in
  match pairs with
  | [] => Ok VNull
  | p :: ps =>
      r <- fold_left (fun acc x =>
                        a <- acc ;;
                        match val_ltb (snd x) (snd a) with
                        | Some lt => if Bool.eqb lt want_lt && negb (val_eqb (snd x) (snd a)) then Ok x else Ok a
                        | None => Fail E_TYPE
                        end) ps (Ok p) ;;
      Ok (fst r)
  end.

(* List and Set are returned in sorted order: their element order is unspecified (the harness
   sorts the implementation's lists in those columns). *)
Definition aggregate (op : aggop) (vals : list val) : res val :=
  let vs := filter (fun v => negb (is_null v)) vals in
  match op with
  | ASum =>
      match vs with
      | [] => Ok VNull
      | _ => fold_left (fun acc v => a <- acc ;; eval_bin OAdd a v) vs (Ok (VInt 0))
      end
  | AMin => pick_ext true vs
  | AMax => pick_ext false vs
  | ACount => match vs with [] => Ok VNull | _ => s <- sort_vals vs ;; Ok (VInt (Z.of_nat (length (dedup_sorted s)))) end
  | AList => match vs with [] => Ok VNull | _ => s <- sort_vals vs ;; Ok (VList s) end
  | ASet => match vs with [] => Ok VNull | _ => s <- sort_vals vs ;; Ok (VList (dedup_sorted s)) end
  | AArgMin => arg_ext true vals
  | AArgMax => arg_ext false vals
  | AAnyValue => match vs with [] => Ok VNull | v :: _ => Ok v end
  | AListQ =>
      (* JSON_GROUP_ARRAY: nulls are kept (sorted last), nothing gives [] *)
      s <- sort_vals vs ;; Ok (VList (s ++ filter is_null vals))
  | ASetQ => s <- sort_vals vs ;; Ok (VList (dedup_sorted s ++ match filter is_null vals with [] => [] | _ => [VNull] end))
  | ACountQ => s <- sort_vals vs ;; Ok (VInt (Z.of_nat (length (dedup_sorted s))))
  end.

(* ---------- the evaluator ---------- *)
Definition unsafe_if_none {A} (o : option A) : res A :=
  match o with Some a => Ok a | None => Fail E_UNSAFE end.

(* match the arguments of an atom against a row, threading the environment *)
Definition match_args (ev : env -> expr -> res (list val)) (args : list (field * expr)) (r : row)
    (en : env) : res (list env) :=
  fold_left
    (fun acc fe =>
       ens <- acc ;;
       flat_mapM
         (fun en' =>
            match lookup_field (fst fe) r with
            | None => Fail E_TYPE
            | Some cell =>
                match snd fe with
                | EVar x =>
                    match lookup_var x en' with
                    | None => Ok [(x, cell) :: en']
                    | Some v => Ok (if sql_eq v cell then [en'] else [])
                    end
                | e => vs <- ev en' e ;;
                       Ok (flat_map (fun v => if sql_eq v cell then [en'] else []) vs)
                end
            end) ens)
    args (Ok [en]).

Definition group_rows (keyf : list field) (aggf : list (field * aggop)) (pre : list row) : res (list row) :=
  (* distinct keys in first-occurrence order; one row per key *)
  let key_of (r : row) := map (fun f => match lookup_field f r with Some v => v | None => VNull end) keyf in
  let keys := fold_left (fun acc r => let k := key_of r in
                           if existsb (fun k' => list_eqb val_eqb k k') acc then acc else acc ++ [k])
                        pre [] in
  mapM (fun k =>
          let grp := filter (fun r => list_eqb val_eqb (key_of r) k) pre in
          aggs <- mapM (fun fo =>
                          v <- aggregate (snd fo)
                                 (flat_map (fun r => match lookup_field (fst fo) r with
                                                     | Some v => [v] | None => [] end) grp) ;;
                          Ok (fst fo, v)) aggf ;;
          Ok (combine keyf k ++ aggs))
       keys.

Fixpoint eval_expr (n : nat) (P : program) (D : db) (scope : list var) (en : env) (e : expr)
    {struct n} : res (list val) :=
  match n with
  | O => Fail E_FUEL
  | S n' =>
      let ev := eval_expr n' P D scope in
      match e with
      | ENull => Ok [VNull]
      | EInt z => Ok [VInt z]
      | EStr s => Ok [VStr s]
      | EVar x => match lookup_var x en with Some v => Ok [v] | None => Fail E_UNSAFE end
      | EBin op a b =>
          va <- ev en a ;; vb <- ev en b ;;
          flat_mapM (fun x => mapM (fun y => eval_bin op x y) vb) va
      | EList es => vs <- mapM (ev en) es ;; Ok (map VList (choices vs))
      | ERec fs =>
          vs <- mapM (fun fe => ev en (snd fe)) fs ;;
          Ok (map (fun c => VRec (combine (map fst fs) c)) (choices vs))
      | EField e' f =>
          vs <- ev en e' ;;
          mapM (fun v => match v with
                         | VRec r => match lookup_field f r with Some x => Ok x | None => Fail E_TYPE end
                         | VNull => Ok VNull
                         | _ => Fail E_TYPE
                         end) vs
      | EIf c t e' =>
          vc <- ev en c ;; vt <- ev en t ;; ve <- ev en e' ;;
          Ok (flat_map (fun c' => flat_map (fun t' => map (fun e'' => if truthy c' then t' else e'') ve) vt) vc)
      | EFun f args => vs <- mapM (ev en) args ;; mapM (eval_builtin f) (choices vs)
      | ECall p args =>
          vs <- mapM (fun fe => ev en (snd fe)) args ;;
          flat_mapM
            (fun c =>
               let inputs := combine (map fst args) c in
               rows <- rows_of n' P D p inputs ;;
               (* a call to an injectible predicate passes its arguments (null included) to the
                  head variables; a table is joined, and null joins with nothing *)
               let eqf := match find_pdef p P with
                          | Some d => match p_kind d with
                                      | KFunc => fun a b => (is_null a && is_null b) || sql_eq a b
                                      | KTable => sql_eq end
                          | None => sql_eq end in
               flat_mapM
                 (fun r =>
                    if forallb (fun fv => match lookup_field (fst fv) r with
                                          | Some cell => eqf (snd fv) cell | None => false end) inputs
                    then match lookup_field f_value r with Some v => Ok [v] | None => Fail E_TYPE end
                    else Ok []) rows)
            (choices vs)
      | ECombine op e' body =>
          let scope' := vars_cs false body ++ vars_e false e' ++ scope in
          ens <- eval_conj_list n' P D scope' en body ;;
          vals <- flat_mapM (fun en' => eval_expr n' P D scope' en' e') ens ;;
          v <- aggregate op vals ;; Ok [v]
      end
  end

with eval_conj_list (n : nat) (P : program) (D : db) (scope : list var) (en : env) (cs : list conj)
    {struct n} : res (list env) :=
  match n with
  | O => Fail E_FUEL
  | S n' =>
      sch <- unsafe_if_none (schedule scope (S (length cs)) (map fst en) cs) ;;
      (fix go (ens : list env) (l : list conj) {struct l} : res (list env) :=
         match l with
         | [] => Ok ens
         | c :: l' =>
             ens' <- flat_mapM
                       (fun en1 =>
                          match c with
                          | CAtom p args =>
                              (* inputs of a call to an injectible predicate: the evaluable arguments *)
                              let evaluable := filter (fun fe => ready_e scope (map fst en1) (snd fe)) args in
                              vs <- mapM (fun fe => eval_expr n' P D scope en1 (snd fe)) evaluable ;;
                              flat_mapM
                                (fun ch =>
                                   rows <- rows_of n' P D p (combine (map fst evaluable) ch) ;;
                                   flat_mapM (fun r => match_args (eval_expr n' P D scope) args r en1) rows)
                                (match find_pdef p P with
                                 | Some d => match p_kind d with KFunc => choices vs | KTable => [[]] end
                                 | None => [[]]
                                 end)
                          | CCond e =>
                              vs <- eval_expr n' P D scope en1 e ;;
                              Ok (flat_map (fun v => if truthy v then [en1] else []) vs)
                          | CUnify a b =>
                              match bare_unbound (map fst en1) a, bare_unbound (map fst en1) b with
                              | Some x, None =>
                                  vs <- eval_expr n' P D scope en1 b ;; Ok (map (fun v => (x, v) :: en1) vs)
                              | None, Some x =>
                                  vs <- eval_expr n' P D scope en1 a ;; Ok (map (fun v => (x, v) :: en1) vs)
                              | None, None =>
                                  va <- eval_expr n' P D scope en1 a ;; vb <- eval_expr n' P D scope en1 b ;;
                                  Ok (flat_map (fun x => flat_map (fun y => if sql_eq x y then [en1] else []) vb) va)
                              | Some _, Some _ => Fail E_UNSAFE
                              end
                          | CIn x l0 =>
                              vl <- eval_expr n' P D scope en1 l0 ;;
                              flat_mapM
                                (fun lv =>
                                   match lv with
                                   | VList items =>
                                       match bare_unbound (map fst en1) x with
                                       | Some y => Ok (map (fun it => (y, it) :: en1) items)
                                       | None =>
                                           vx <- eval_expr n' P D scope en1 x ;;
                                           Ok (flat_map (fun v => flat_map (fun it => if sql_eq v it then [en1] else []) items) vx)
                                       end
                                   | VNull => Ok []
                                   | _ => Fail E_TYPE
                                   end) vl
                          | CNot body =>
                              let scope' := vars_cs false body ++ scope in
                              ens2 <- eval_conj_list n' P D scope' en1 body ;;
                              Ok (match ens2 with [] => [en1] | _ => [] end)
                          end) ens ;;
             go ens' l'
         end) [en] sch
  end

(* rows of predicate p; for an injectible predicate, given the values of its input arguments *)
with rows_of (n : nat) (P : program) (D : db) (p : pred) (inputs : row) {struct n} : res (list row) :=
  match n with
  | O => Fail E_FUEL
  | S n' =>
      match lookup_db p D with
      | Some rows => Ok rows
      | None =>
          match find_pdef p P with
          | None => Fail E_UNDEF
          | Some d =>
              flat_mapM
                (fun r =>
                   if r_distinct r then Fail E_DISTINCT else
                   (* bind head variables from the inputs *)
                   let en0 := flat_map (fun fh => match snd fh with
                                                  | HExpr (EVar x) =>
                                                      match lookup_field (fst fh) inputs with
                                                      | Some v => [(x, v)] | None => [] end
                                                  | _ => [] end) (r_head r) in
                   let scope := vars_head (r_head r) in
                   flat_mapM
                     (fun disj =>
                        let scope' := vars_cs false disj ++ scope in
                        ens <- eval_conj_list n' P D scope' en0 disj ;;
                        flat_mapM
                          (fun en1 =>
                             cells <- mapM (fun fh => match snd fh with
                                                      | HExpr e => eval_expr n' P D scope' en1 e
                                                      | HAgg _ _ => Fail E_DISTINCT end) (r_head r) ;;
                             Ok (map (fun c => combine (map fst (r_head r)) c) (choices cells)))
                          ens)
                     (dnf (r_body r)))
                (p_rules d)
          end
      end
  end.

(* ---------- predicates and programs ---------- *)
Definition FUEL := 40%nat.

Definition head_keys (h : list (field * hval)) : list field :=
  flat_map (fun fh => match snd fh with HExpr _ => [fst fh] | HAgg _ _ => [] end) h.
Definition head_aggs (h : list (field * hval)) : list (field * aggop) :=
  flat_map (fun fh => match snd fh with HExpr _ => [] | HAgg op _ => [(fst fh, op)] end) h.

Definition eval_rule (P : program) (D : db) (r : rule) : res (list row) :=
  let scope := vars_head (r_head r) in
  flat_mapM
    (fun disj =>
       let scope' := vars_cs false disj ++ scope in
       ens <- eval_conj_list FUEL P D scope' [] disj ;;
       flat_mapM
         (fun en1 =>
            cells <- mapM (fun fh => match snd fh with
                                     | HExpr e => eval_expr FUEL P D scope' en1 e
                                     | HAgg _ e => eval_expr FUEL P D scope' en1 e end) (r_head r) ;;
            Ok (map (fun c => combine (map fst (r_head r)) c) (choices cells)))
         ens)
    (dnf (r_body r)).

Definition eval_pdef (P : program) (D : db) (d : pdef) : res (list row) :=
  let rules := p_rules d in
  let any_distinct := existsb r_distinct rules in
  let all_distinct := forallb r_distinct rules in
  let any_agg := existsb (fun r => match head_aggs (r_head r) with [] => false | _ => true end) rules in
  if any_distinct && negb all_distinct then Fail E_DISTINCT
  else if any_agg && negb all_distinct then Fail E_DISTINCT
  else
    pre <- flat_mapM (eval_rule P D) rules ;;
    if any_distinct then
      match rules with
      | r :: _ => group_rows (head_keys (r_head r)) (head_aggs (r_head r)) pre
      | [] => Ok []
      end
    else Ok pre.

Fixpoint eval_program_from (P rest : program) (D : db) : res db :=
  match rest with
  | [] => Ok D
  | d :: rest' =>
      match p_kind d with
      | KFunc => eval_program_from P rest' D
      | KTable => rows <- eval_pdef P D d ;; eval_program_from P rest' ((p_name d, rows) :: D)
      end
  end.

Definition eval_program (P : program) (D0 : db) : res db := eval_program_from P P D0.

Definition eval_query (P : program) (D0 : db) (p : pred) : res (list row) :=
  D <- eval_program P D0 ;;
  match lookup_db p D with Some rows => Ok rows | None => Fail E_UNDEF end.
