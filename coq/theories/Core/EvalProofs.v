(* Facts about the reference evaluator that hold for all programs and databases:
   disjunction and several rules ADD multiplicities (bag union = list append),
   the distributive law behind the DNF rewrite, negation as an aggregating expression. *)
From Coq Require Import List ZArith Bool Arith Permutation Lia.
Import ListNotations.
From LV Require Import Core.Syntax Core.Eval.

Arguments eval_expr : simpl never.
Arguments eval_conj_list : simpl never.
Arguments rows_of : simpl never.
Arguments eval_rule : simpl never.
Global Opaque FUEL.

(* ---------- the monad ---------- *)
Lemma bind_ok {A B} (x : res A) (f : A -> res B) b :
  bind x f = Ok b <-> exists a, x = Ok a /\ f a = Ok b.
Proof.
  destruct x as [a|c]; simpl; split.
  - intros H. exists a. auto.
  - intros [a' [E H]]. inversion E. subst. exact H.
  - discriminate.
  - intros [a' [E _]]. discriminate.
Qed.

Lemma mapM_app {A B} (f : A -> res B) l1 l2 :
  mapM f (l1 ++ l2) = bind (mapM f l1) (fun a => bind (mapM f l2) (fun b => Ok (a ++ b))).
Proof.
  induction l1 as [|x l1 IH]; simpl.
  - destruct (mapM f l2); reflexivity.
  - destruct (f x) as [y|c]; simpl; [|reflexivity].
    rewrite IH. destruct (mapM f l1) as [a|c]; simpl; [|reflexivity].
    destruct (mapM f l2); reflexivity.
Qed.

Lemma flat_mapM_app {A B} (f : A -> res (list B)) l1 l2 :
  flat_mapM f (l1 ++ l2) =
  bind (flat_mapM f l1) (fun a => bind (flat_mapM f l2) (fun b => Ok (a ++ b))).
Proof.
  unfold flat_mapM. rewrite mapM_app.
  destruct (mapM f l1) as [a|c]; simpl; [|reflexivity].
  destruct (mapM f l2) as [b|c]; simpl; [|reflexivity].
  rewrite concat_app. reflexivity.
Qed.

Lemma flat_mapM_cons {A B} (f : A -> res (list B)) x l :
  flat_mapM f (x :: l) = bind (f x) (fun a => bind (flat_mapM f l) (fun b => Ok (a ++ b))).
Proof.
  unfold flat_mapM. simpl. destruct (f x) as [a|c]; simpl; [|reflexivity].
  destruct (mapM f l); reflexivity.
Qed.

Lemma mapM_ok_length {A B} (f : A -> res B) l r : mapM f l = Ok r -> length r = length l.
Proof.
  revert r. induction l as [|x l IH]; simpl; intros r H.
  - inversion H. reflexivity.
  - destruct (f x); simpl in H; [|discriminate]. destruct (mapM f l); simpl in H; [|discriminate].
    inversion H. simpl. f_equal. apply IH. reflexivity.
Qed.

(* flat_mapM over a permuted list gives a permuted result (when it succeeds) *)
Lemma mapM_perm {A B} (f : A -> res B) l l' :
  Permutation l l' ->
  match mapM f l, mapM f l' with
  | Ok r, Ok r' => Permutation r r'
  | Fail _, Fail _ => True
  | _, _ => False
  end.
Proof.
  induction 1 as [|x l l' P IH|x y l|l l' l'' P1 IH1 P2 IH2]; simpl.
  - constructor.
  - destruct (f x); simpl; [|exact I].
    destruct (mapM f l), (mapM f l'); simpl; try exact I; try contradiction. constructor. exact IH.
  - destruct (f y), (f x); simpl; try exact I; destruct (mapM f l); simpl; try exact I; constructor.
  - destruct (mapM f l), (mapM f l'), (mapM f l''); try exact I; try contradiction.
    eapply perm_trans; eassumption.
Qed.

Lemma concat_perm {A} (l l' : list (list A)) : Permutation l l' -> Permutation (concat l) (concat l').
Proof.
  induction 1; simpl.
  - constructor.
  - apply Permutation_app_head. assumption.
  - rewrite !app_assoc. apply Permutation_app_tail. apply Permutation_app_comm.
  - eapply perm_trans; eassumption.
Qed.

Lemma flat_mapM_perm {A B} (f : A -> res (list B)) l l' :
  Permutation l l' ->
  match flat_mapM f l, flat_mapM f l' with
  | Ok r, Ok r' => Permutation r r'
  | Fail _, Fail _ => True
  | _, _ => False
  end.
Proof.
  intros P. unfold flat_mapM. pose proof (mapM_perm f l l' P) as H.
  destruct (mapM f l), (mapM f l'); simpl; try exact H. apply concat_perm, H.
Qed.

(* ---------- DNF ---------- *)
Fixpoint dnf_and (ds : list (list (list conj))) : list (list conj) :=
  match ds with
  | [] => [[]]
  | d :: ds' => flat_map (fun d1 => map (fun d2 => d1 ++ d2) (dnf_and ds')) d
  end.

Lemma dnf_PAnd ps : dnf (PAnd ps) = dnf_and (map dnf ps).
Proof. simpl. induction ps as [|q l IH]; simpl; [reflexivity|]. rewrite IH. reflexivity. Qed.

Lemma dnf_POr ps : dnf (POr ps) = concat (map dnf ps).
Proof. simpl. induction ps as [|q l IH]; simpl; [reflexivity|]. rewrite IH. reflexivity. Qed.

(* the distributive law used by the parser's DNF rewrite: (p , (q1 | q2)) has the disjuncts of
   (p, q1 | p, q2), up to their order *)
Lemma flat_map_app_perm {A B} (f g : A -> list B) l :
  Permutation (flat_map (fun x => f x ++ g x) l) (flat_map f l ++ flat_map g l).
Proof.
  induction l as [|x l IH]; simpl; [constructor|].
  rewrite <- !app_assoc. apply Permutation_app_head.
  eapply perm_trans; [apply Permutation_app_head, IH|].
  rewrite !app_assoc. apply Permutation_app_tail, Permutation_app_comm.
Qed.

Lemma dnf_and_two A X :
  dnf_and [A; X] = flat_map (fun d1 => map (fun d2 => d1 ++ d2) (map (fun d => d ++ []) X)) A.
Proof.
  simpl; apply flat_map_ext; intros d1; f_equal;
    induction X as [|x X IH]; simpl; rewrite ?IH; reflexivity.
Qed.

Theorem dnf_distributes p q1 q2 :
  Permutation (dnf (PAnd [p; POr [q1; q2]])) (dnf (POr [PAnd [p; q1]; PAnd [p; q2]])).
Proof.
  rewrite dnf_PAnd, dnf_POr.
  change (map dnf [p; POr [q1; q2]]) with [dnf p; dnf (POr [q1; q2])].
  change (map dnf [PAnd [p; q1]; PAnd [p; q2]]) with [dnf (PAnd [p; q1]); dnf (PAnd [p; q2])].
  rewrite dnf_POr, !dnf_PAnd.
  change (map dnf [q1; q2]) with [dnf q1; dnf q2].
  change (map dnf [p; q1]) with [dnf p; dnf q1].
  change (map dnf [p; q2]) with [dnf p; dnf q2].
  rewrite !dnf_and_two. cbn [concat]. rewrite !app_nil_r.
  rewrite (flat_map_ext _
             (fun d1 : list conj =>
                map (fun d2 : list conj => d1 ++ d2) (map (fun d : list conj => d ++ []) (dnf q1)) ++
                map (fun d2 : list conj => d1 ++ d2) (map (fun d : list conj => d ++ []) (dnf q2)))).
  - apply flat_map_app_perm.
  - intros a. rewrite 2 map_app. reflexivity.
Qed.

(* ---------- several rules / disjunction add multiplicities ---------- *)
Theorem eval_rule_disjunction P D h dis b1 b2 :
  eval_rule P D {| r_head := h; r_distinct := dis; r_body := POr [b1; b2] |} =
  bind (eval_rule P D {| r_head := h; r_distinct := dis; r_body := b1 |}) (fun r1 =>
  bind (eval_rule P D {| r_head := h; r_distinct := dis; r_body := b2 |}) (fun r2 => Ok (r1 ++ r2))).
Proof.
  unfold eval_rule. cbn [r_body r_head]. rewrite dnf_POr. simpl map. simpl concat.
  rewrite app_nil_r. apply flat_mapM_app.
Qed.

Definition plain (rs : list rule) : Prop :=
  forall r, In r rs -> r_distinct r = false /\ head_aggs (r_head r) = [].

Lemma plain_flags rs : plain rs ->
  existsb r_distinct rs = false /\
  existsb (fun r => match head_aggs (r_head r) with [] => false | _ => true end) rs = false.
Proof.
  intros H. split.
  - destruct (existsb r_distinct rs) eqn:E; [|reflexivity].
    apply existsb_exists in E as [r [Hin Hr]]. destruct (H r Hin). congruence.
  - destruct (existsb _ rs) eqn:E; [|reflexivity].
    apply existsb_exists in E as [r [Hin Hr]]. destruct (H r Hin) as [_ Ha]. rewrite Ha in Hr. discriminate.
Qed.

Lemma eval_pdef_plain P D n k rs : plain rs ->
  eval_pdef P D {| p_name := n; p_kind := k; p_rules := rs |} = flat_mapM (eval_rule P D) rs.
Proof.
  intros H. destruct (plain_flags rs H) as [E1 E2]. unfold eval_pdef. cbn [p_rules].
  rewrite E1, E2. simpl. destruct (flat_mapM (eval_rule P D) rs); reflexivity.
Qed.

(* several rules of a non-aggregating predicate: the bag union of the rules' bags *)
Theorem eval_pdef_rules_add P D n k rs1 rs2 : plain rs1 -> plain rs2 ->
  eval_pdef P D {| p_name := n; p_kind := k; p_rules := rs1 ++ rs2 |} =
  bind (eval_pdef P D {| p_name := n; p_kind := k; p_rules := rs1 |}) (fun a =>
  bind (eval_pdef P D {| p_name := n; p_kind := k; p_rules := rs2 |}) (fun b => Ok (a ++ b))).
Proof.
  intros H1 H2.
  assert (H : plain (rs1 ++ rs2)).
  { intros r Hin. apply in_app_or in Hin as [Hin|Hin]; auto. }
  rewrite !eval_pdef_plain by assumption. apply flat_mapM_app.
Qed.

(* two rules with the same head = one rule whose body is the disjunction of the bodies *)
Theorem rules_as_disjunction P D n k h b1 b2 :
  eval_pdef P D {| p_name := n; p_kind := k;
                   p_rules := [ {| r_head := h; r_distinct := false; r_body := b1 |};
                                {| r_head := h; r_distinct := false; r_body := b2 |} ] |} =
  eval_pdef P D {| p_name := n; p_kind := k;
                   p_rules := [ {| r_head := h; r_distinct := false; r_body := POr [b1; b2] |} ] |}.
Proof.
  unfold eval_pdef. cbn [p_rules existsb forallb r_distinct r_head orb andb negb].
  destruct (match head_aggs h with [] => false | _ :: _ => true end).
  - reflexivity.
  - simpl. rewrite !flat_mapM_cons. rewrite eval_rule_disjunction.
    unfold flat_mapM at 1 2. simpl.
    destruct (eval_rule P D _) as [r1|c]; simpl; [|reflexivity].
    destruct (eval_rule P D _) as [r2|c]; simpl; [|reflexivity].
    rewrite !app_nil_r. reflexivity.
Qed.

(* the order of the rules of a non-aggregating predicate does not matter *)
Theorem eval_pdef_rule_order P D n k rs rs' : plain rs -> Permutation rs rs' ->
  match eval_pdef P D {| p_name := n; p_kind := k; p_rules := rs |},
        eval_pdef P D {| p_name := n; p_kind := k; p_rules := rs' |} with
  | Ok a, Ok b => Permutation a b
  | Fail _, Fail _ => True
  | _, _ => False
  end.
Proof.
  intros H Pm.
  assert (H' : plain rs').
  { intros r Hin. apply H. eapply Permutation_in; [apply Permutation_sym, Pm | exact Hin]. }
  rewrite !eval_pdef_plain by assumption. apply flat_mapM_perm, Pm.
Qed.

(* ---------- order of disjuncts ---------- *)
Lemma map_perm {A B} (f : A -> B) l l' : Permutation l l' -> Permutation (map f l) (map f l').
Proof. apply Permutation_map. Qed.

Theorem dnf_disjunct_order ps ps' : Permutation ps ps' -> Permutation (dnf (POr ps)) (dnf (POr ps')).
Proof. intros H. rewrite !dnf_POr. apply concat_perm, Permutation_map, H. Qed.

Theorem eval_rule_disjunct_order P D h dis ps ps' : Permutation ps ps' ->
  match eval_rule P D {| r_head := h; r_distinct := dis; r_body := POr ps |},
        eval_rule P D {| r_head := h; r_distinct := dis; r_body := POr ps' |} with
  | Ok a, Ok b => Permutation a b
  | Fail _, Fail _ => True
  | _, _ => False
  end.
Proof.
  intros H. unfold eval_rule. cbn [r_body r_head]. apply flat_mapM_perm, dnf_disjunct_order, H.
Qed.
