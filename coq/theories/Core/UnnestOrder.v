(* The order SortUnnestings gives (Core/Unnest.v) does not depend on the order in which the `in` conjuncts were
   written: the chosen item is always the ready item with the least name, and names are distinct. *)
From Coq Require Import List String Ascii Bool Arith Lia Permutation NArith.
Import ListNotations.
From LV Require Import Core.Unnest Core.UnnestProofs.

(* ---------- Python string order is a strict total order ---------- *)
Lemma ascii_lt_trans a b c : Ascii.compare a b = Lt -> Ascii.compare b c = Lt -> Ascii.compare a c = Lt.
Proof. unfold Ascii.compare. rewrite !N.compare_lt_iff. apply N.lt_trans. Qed.

Lemma str_lt_trans : forall a b c, String.compare a b = Lt -> String.compare b c = Lt -> String.compare a c = Lt.
Proof.
  induction a as [|x a IH]; intros [|y b] [|z c] H1 H2; simpl in *; try discriminate; try reflexivity.
  destruct (Ascii.compare x y) eqn:Exy; try discriminate.
  - apply Ascii.compare_eq_iff in Exy. subst y. destruct (Ascii.compare x z) eqn:Exz; try discriminate; [|reflexivity].
    eapply IH; eassumption.
  - destruct (Ascii.compare y z) eqn:Eyz; try discriminate.
    + apply Ascii.compare_eq_iff in Eyz. subst z. rewrite Exy. reflexivity.
    + rewrite (ascii_lt_trans _ _ _ Exy Eyz). reflexivity.
Qed.

Lemma compare_refl s : String.compare s s = Eq.
Proof.
  induction s as [|x s IH]; simpl; [reflexivity|].
  assert (E : Ascii.compare x x = Eq) by (unfold Ascii.compare; apply N.compare_refl). rewrite E. exact IH.
Qed.

Lemma ltb_lt a b : String.ltb a b = true <-> String.compare a b = Lt.
Proof. unfold String.ltb. destruct (String.compare a b); split; intros H; try discriminate; reflexivity. Qed.

Lemma ltb_irrefl a : String.ltb a a = false.
Proof. unfold String.ltb. rewrite compare_refl. reflexivity. Qed.

Lemma ltb_trans a b c : String.ltb a b = true -> String.ltb b c = true -> String.ltb a c = true.
Proof. rewrite !ltb_lt. apply str_lt_trans. Qed.

Lemma ltb_asym a b : String.ltb a b = true -> String.ltb b a = false.
Proof.
  intros H. destruct (String.ltb b a) eqn:E; [|reflexivity].
  pose proof (ltb_trans _ _ _ H E) as C. rewrite ltb_irrefl in C. discriminate.
Qed.

Lemma ltb_total a b : String.ltb a b = false -> String.ltb b a = false -> a = b.
Proof.
  unfold String.ltb. rewrite (String.compare_antisym b a).
  destruct (String.compare a b) eqn:E; simpl; try discriminate; intros _ _.
  apply String.compare_eq_iff, E.
Qed.

(* not (x < y), not (y < z)  ->  not (x < z)   (i.e. z <= y <= x -> z <= x) *)
Lemma nlt_trans x y z : String.ltb x y = false -> String.ltb y z = false -> String.ltb x z = false.
Proof.
  intros H1 H2. destruct (String.ltb x z) eqn:E; [|reflexivity].
  destruct (String.ltb z y) eqn:Ezy.
  - rewrite (ltb_trans _ _ _ E Ezy) in H1. discriminate.
  - pose proof (ltb_total _ _ H2 Ezy). subst z. congruence.
Qed.

(* ---------- min_ready returns the least ready item ---------- *)
Section Least.
Variables allv done : list string.

Lemma min_ready_least : forall rem best u, min_ready allv done rem best = Some u ->
  (forall w, In w rem -> ready allv done w = true -> String.ltb (fst w) (fst u) = false) /\
  (forall b, best = Some b -> String.ltb (fst b) (fst u) = false).
Proof.
  induction rem as [|w r IH]; intros best u H; simpl in H.
  - subst best. split; [intros ? [] | intros b E; inversion E; apply ltb_irrefl].
  - apply IH in H. destruct H as [Hr Hb]. split.
    + intros x [<-|Hx] Rx; [|apply Hr; assumption]. rewrite Rx in Hb.
      destruct best as [b|].
      * destruct (String.ltb (fst w) (fst b)) eqn:E; [apply (Hb w eq_refl)|].
        eapply nlt_trans; [exact E | apply (Hb b eq_refl)].
      * apply (Hb w eq_refl).
    + intros b Eb. subst best. destruct (ready allv done w); [|apply (Hb b eq_refl)].
      destruct (String.ltb (fst w) (fst b)) eqn:E; [|apply (Hb b eq_refl)].
      specialize (Hb w eq_refl).
      destruct (String.ltb (fst b) (fst u)) eqn:Ebu; [|reflexivity].
      rewrite (ltb_trans _ _ _ E Ebu) in Hb. discriminate.
Qed.

Lemma min_ready_unready : forall rem, (forall u, In u rem -> ready allv done u = false) ->
  min_ready allv done rem None = None.
Proof.
  induction rem as [|w r IH]; intros H; simpl; [reflexivity|].
  rewrite (H w (or_introl eq_refl)). apply IH. intros u Hu. apply H. right. exact Hu.
Qed.

Lemma min_ready_perm rem rem' : NoDup (map fst rem) -> Permutation rem rem' ->
  min_ready allv done rem None = min_ready allv done rem' None.
Proof.
  intros ND P.
  destruct (min_ready allv done rem None) as [u|] eqn:E1.
  - destruct (min_ready_some _ _ _ _ _ E1) as [[Hin Hr]|Hb]; [|discriminate].
    destruct (min_ready_least _ _ _ E1) as [L1 _].
    destruct (min_ready allv done rem' None) as [u'|] eqn:E2.
    + destruct (min_ready_some _ _ _ _ _ E2) as [[Hin' Hr']|Hb]; [|discriminate].
      destruct (min_ready_least _ _ _ E2) as [L2 _].
      assert (En : fst u = fst u').
      { apply ltb_total.
        - apply L2; [eapply Permutation_in; eassumption | exact Hr].
        - apply L1; [eapply Permutation_in; [apply Permutation_sym; exact P | exact Hin'] | exact Hr']. }
      f_equal. apply (Permutation_in _ (Permutation_sym P)) in Hin'.
      clear - ND Hin Hin' En. induction rem as [|w r IH]; [contradiction|].
      simpl in ND. inversion ND as [|? ? Hw ND']. subst.
      destruct Hin as [->|Hin], Hin' as [->|Hin']; auto.
      * exfalso. apply Hw. rewrite En. apply in_map, Hin'.
      * exfalso. apply Hw. rewrite <- En. apply in_map, Hin.
    + apply min_ready_none in E2 as [_ Hall]. rewrite (Hall u (Permutation_in _ P Hin)) in Hr. discriminate.
  - apply min_ready_none in E1 as [_ Hall]. symmetry. apply min_ready_unready.
    intros u Hu. apply Hall. eapply Permutation_in; [apply Permutation_sym; exact P | exact Hu].
Qed.
End Least.

Lemma perm_filter {A} (f : A -> bool) l l' : Permutation l l' -> Permutation (filter f l) (filter f l').
Proof.
  induction 1 as [|x l l' P IH|x y l|l l' l'' P1 IH1 P2 IH2]; simpl.
  - constructor.
  - destruct (f x); [apply perm_skip|]; exact IH.
  - destruct (f x), (f y); try reflexivity. apply perm_swap.
  - eapply perm_trans; eassumption.
Qed.

Lemma sort_go_perm_input allv : forall fuel rem rem' done acc,
  NoDup (map fst rem) -> Permutation rem rem' ->
  sort_go fuel allv rem done acc = sort_go fuel allv rem' done acc.
Proof.
  induction fuel as [|f IH]; intros rem rem' done acc ND P.
  - destruct rem, rem'; try reflexivity.
    + apply Permutation_nil in P. discriminate.
    + apply Permutation_sym, Permutation_nil in P. discriminate.
  - destruct rem as [|w r] eqn:Er.
    + apply Permutation_nil in P. subst. reflexivity.
    + destruct rem' as [|w' r'] eqn:Er'; [apply Permutation_sym, Permutation_nil in P; discriminate|].
      rewrite <- Er, <- Er' in *.
      assert (E : forall l x t, l = x :: t -> sort_go (S f) allv l done acc =
                match min_ready allv done l None with
                | None => None
                | Some u => sort_go f allv (remove_name (fst u) l) (fst u :: done) (u :: acc)
                end) by (intros l x t ->; reflexivity).
      rewrite (E _ _ _ Er), (E _ _ _ Er'). rewrite (min_ready_perm allv done rem rem' ND P).
      destruct (min_ready allv done rem' None) as [u|]; [|reflexivity].
      apply IH; [apply nodup_remove, ND | apply perm_filter, P].
Qed.

Lemma deps_ext allv allv' u : (forall v, smem v allv = smem v allv') -> deps allv u = deps allv' u.
Proof. intros H. unfold deps. apply filter_ext. exact H. Qed.

Lemma min_ready_ext allv allv' done : (forall v, smem v allv = smem v allv') ->
  forall rem best, min_ready allv done rem best = min_ready allv' done rem best.
Proof.
  intros H. induction rem as [|w r IH]; intros best; simpl; [reflexivity|].
  unfold ready. rewrite (deps_ext _ _ w H). apply IH.
Qed.

Lemma sort_go_ext allv allv' : (forall v, smem v allv = smem v allv') ->
  forall fuel rem done acc, sort_go fuel allv rem done acc = sort_go fuel allv' rem done acc.
Proof.
  intros H. induction fuel as [|f IH]; intros rem done acc; destruct rem as [|w r]; try reflexivity.
  cbn [sort_go]. rewrite (min_ready_ext _ _ done H). destruct (min_ready allv' done (w :: r) None); [apply IH | reflexivity].
Qed.

(* THE FROM ORDER DOES NOT DEPEND ON THE ORDER OF THE `in` CONJUNCTS *)
Theorem sort_order_independent us us' :
  NoDup (map fst us) -> Permutation us us' -> sort_unnestings us = sort_unnestings us'.
Proof.
  intros ND P. unfold sort_unnestings. pose proof (Permutation_length P) as EL. unfold uitem in *. rewrite EL.
  rewrite (sort_go_ext (map fst us) (map fst us')).
  - apply sort_go_perm_input; assumption.
  - intros v. destruct (smem v (map fst us)) eqn:E1, (smem v (map fst us')) eqn:E2; try reflexivity.
    + apply smem_In in E1. apply (Permutation_in _ (Permutation_map fst P)) in E1. apply smem_In in E1. congruence.
    + apply smem_In in E2. apply (Permutation_in _ (Permutation_sym (Permutation_map fst P))) in E2.
      apply smem_In in E2. congruence.
Qed.
