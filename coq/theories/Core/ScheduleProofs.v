(* Range restriction is a property of the SET of conjuncts, not of their textual order:
   the greedy scheduler of Core/Eval.v succeeds iff SOME order of the conjuncts can be evaluated
   (every conjunct ready when its turn comes), hence for every permutation of the conjuncts alike. *)
From Coq Require Import List Bool Arith Permutation Lia.
Import ListNotations.
From LV Require Import Core.Syntax Core.Eval.

Section S.
Variable scope : list var.

Definition sub (B B' : list var) : Prop := forall x, memv x B = true -> memv x B' = true.

Lemma sub_refl B : sub B B.
Proof. intros x H. exact H. Qed.

Lemma memv_app x a b : memv x (a ++ b) = memv x a || memv x b.
Proof. unfold memv. apply existsb_app. Qed.

Lemma sub_app_r B a : sub B (a ++ B).
Proof. intros x H. rewrite memv_app, H. apply orb_true_r. Qed.

Lemma forallb_mono {A} (f g : A -> bool) l :
  (forall x, f x = true -> g x = true) -> forallb f l = true -> forallb g l = true.
Proof.
  intros H. induction l as [|x l IH]; simpl; [reflexivity|].
  intros E. apply andb_true_iff in E as [E1 E2]. rewrite (H x E1), (IH E2). reflexivity.
Qed.

Lemma ready_e_mono B B' e : sub B B' -> ready_e scope B e = true -> ready_e scope B' e = true.
Proof.
  intros S. unfold ready_e. intros H. apply andb_true_iff in H as [H1 H2]. apply andb_true_iff. split.
  - eapply forallb_mono; [|exact H1]. intros x Hx. apply S, Hx.
  - eapply forallb_mono; [|exact H2]. intros x Hx. apply orb_true_iff in Hx as [Hx|Hx].
    + rewrite (S x Hx). reflexivity.
    + rewrite Hx. apply orb_true_r.
Qed.

Lemma bare_unbound_some B e x : bare_unbound B e = Some x -> e = EVar x /\ memv x B = false.
Proof.
  destruct e; simpl; try discriminate. destruct (memv x0 B) eqn:E; [discriminate|].
  intros H. inversion H. subst. auto.
Qed.

Lemma bare_var_ready B x : memv x B = true -> ready_e scope B (EVar x) = true.
Proof. intros H. unfold ready_e. simpl. rewrite H. reflexivity. Qed.

Lemma bare_unbound_none_mono B B' e : sub B B' -> bare_unbound B e = None -> bare_unbound B' e = None.
Proof.
  intros S. destruct e; simpl; try reflexivity. destruct (memv x B) eqn:E; [|discriminate].
  intros _. rewrite (S x E). reflexivity.
Qed.

Lemma ready_mono B B' c : sub B B' -> ready scope B c = true -> ready scope B' c = true.
Proof.
  intros S. destruct c as [p args|e|a b|x l|body]; simpl.
  - apply forallb_mono. intros fe H. apply orb_true_iff in H as [H|H]; [rewrite H; reflexivity|].
    rewrite (ready_e_mono _ _ _ S H). apply orb_true_r.
  - apply ready_e_mono, S.
  - destruct (bare_unbound B a) as [xa|] eqn:Ea, (bare_unbound B b) as [xb|] eqn:Eb; try discriminate.
    + intros Hb. rewrite (bare_unbound_none_mono _ _ _ S Eb).
      pose proof (ready_e_mono _ _ _ S Hb) as Hb'.
      destruct (bare_unbound B' a) as [xa'|] eqn:Ea'; [exact Hb'|].
      apply bare_unbound_some in Ea as [Ea _]. subst a. simpl in Ea'.
      destruct (memv xa B') eqn:Em; [|discriminate].
      rewrite (bare_var_ready _ _ Em). exact Hb'.
    + intros Ha. rewrite (bare_unbound_none_mono _ _ _ S Ea).
      pose proof (ready_e_mono _ _ _ S Ha) as Ha'.
      destruct (bare_unbound B' b) as [xb'|] eqn:Eb'; [exact Ha'|].
      apply bare_unbound_some in Eb as [Eb _]. subst b. simpl in Eb'.
      destruct (memv xb B') eqn:Em; [|discriminate].
      rewrite Ha', (bare_var_ready _ _ Em). reflexivity.
    + intros H. rewrite (bare_unbound_none_mono _ _ _ S Ea), (bare_unbound_none_mono _ _ _ S Eb).
      apply andb_true_iff in H as [H1 H2].
      rewrite (ready_e_mono _ _ _ S H1), (ready_e_mono _ _ _ S H2). reflexivity.
  - intros H. apply andb_true_iff in H as [H1 H2]. rewrite (ready_e_mono _ _ _ S H1). simpl.
    apply orb_true_iff in H2 as [H2|H2]; [rewrite H2; reflexivity|].
    rewrite (ready_e_mono _ _ _ S H2). apply orb_true_r.
  - apply forallb_mono. intros x H. apply orb_true_iff in H as [H|H].
    + rewrite (S x H). reflexivity.
    + rewrite H. apply orb_true_r.
Qed.

(* what is bound after c, as a set, grows with what was bound before *)
Lemma after_mono B B' c : sub B B' -> ready scope B c = true -> sub (binds B c ++ B) (binds B' c ++ B').
Proof.
  intros S R x H. rewrite memv_app in *. apply orb_true_iff in H as [H|H]; [|rewrite (S x H); apply orb_true_r].
  destruct c as [p args|e|a b|y l|body]; simpl in *; try (rewrite H; reflexivity); try discriminate.
  destruct (bare_unbound B a) as [xa|] eqn:Ea, (bare_unbound B b) as [xb|] eqn:Eb; simpl in H; try discriminate.
  - rewrite (bare_unbound_none_mono _ _ _ S Eb).
    apply bare_unbound_some in Ea as [Ea Ma]. subst a.
    unfold memv in H. simpl in H. rewrite orb_false_r in H. apply Nat.eqb_eq in H. subst x.
    simpl. destruct (memv xa B') eqn:Em; simpl.
    + reflexivity.
    + unfold memv. simpl. rewrite Nat.eqb_refl. reflexivity.
  - rewrite (bare_unbound_none_mono _ _ _ S Ea).
    apply bare_unbound_some in Eb as [Eb Mb]. subst b.
    unfold memv in H. simpl in H. rewrite orb_false_r in H. apply Nat.eqb_eq in H. subst x.
    simpl. destruct (memv xb B') eqn:Em; simpl.
    + reflexivity.
    + unfold memv. simpl. rewrite Nat.eqb_refl. reflexivity.
Qed.

(* c can be taken out of cs leaving rest *)
Inductive Pick (c : conj) : list conj -> list conj -> Prop :=
| pick_here l : Pick c (c :: l) l
| pick_later d l l' : Pick c l l' -> Pick c (d :: l) (d :: l').

(* some order in which every conjunct is ready when its turn comes *)
Inductive sched : list var -> list conj -> Prop :=
| sched_nil B : sched B []
| sched_cons B cs c rest :
    Pick c cs rest -> ready scope B c = true -> sched (binds B c ++ B) rest -> sched B cs.

Lemma sched_mono B cs : sched B cs -> forall B', sub B B' -> sched B' cs.
Proof.
  induction 1 as [B|B cs c rest P R _ IH]; intros B' S; [constructor|].
  econstructor; [exact P | eapply ready_mono; eassumption | apply IH, after_mono; assumption].
Qed.

Lemma Pick_perm c l l' : Pick c l l' -> Permutation l (c :: l').
Proof.
  induction 1; [apply Permutation_refl|].
  eapply perm_trans; [apply perm_skip, IHPick | apply perm_swap].
Qed.

Lemma Pick_length c l l' : Pick c l l' -> length l = S (length l').
Proof. induction 1; simpl; congruence. Qed.

(* two different picks commute *)
Lemma Pick_two c d l l1 l2 : Pick c l l1 -> Pick d l l2 ->
  (c = d /\ l1 = l2) \/ exists l3, Pick d l1 l3 /\ Pick c l2 l3.
Proof.
  intros P1. revert l2. induction P1 as [l|e l l' P1 IH]; intros l2 P2.
  - inversion P2; subst.
    + left. auto.
    + right. exists l'. split; [assumption | constructor].
  - inversion P2; subst.
    + right. exists l'. split; [constructor | assumption].
    + destruct (IH _ H2) as [[E1 E2]|[l3 [Pa Pb]]].
      * left. subst. auto.
      * right. exists (e :: l3). split; constructor; assumption.
Qed.

(* exchange: any ready conjunct may be taken first *)
Lemma sched_exchange B cs : sched B cs ->
  forall c rest, Pick c cs rest -> ready scope B c = true -> sched (binds B c ++ B) rest.
Proof.
  induction 1 as [B|B cs c0 rest0 P0 R0 H0 IH]; intros c rest P R.
  - inversion P.
  - destruct (Pick_two _ _ _ _ _ P0 P) as [[E1 E2]|[l3 [Pa Pb]]].
    + subst. exact H0.
    + (* c0 <> c as positions: take c0 first after c *)
      assert (Rc : ready scope (binds B c0 ++ B) c = true)
        by (eapply ready_mono; [apply sub_app_r | exact R]).
      pose proof (IH c l3 Pa Rc) as H1.
      econstructor; [exact Pb | eapply ready_mono; [apply sub_app_r | exact R0] |].
      eapply sched_mono; [exact H1|].
      (* binds (binds B c0 ++ B) c ++ binds B c0 ++ B  is included in  binds (binds B c ++ B) c0 ++ binds B c ++ B *)
      intros x Hx. rewrite memv_app in Hx. apply orb_true_iff in Hx as [Hx|Hx].
      * (* bound by c after c0 *)
        pose proof (after_mono B (binds B c ++ B) c (sub_app_r _ _) R) as A1.
        assert (Hc : memv x (binds B c ++ B) = true \/ memv x (binds B c0 ++ B) = true).
        { (* binds under the bigger set is no larger than under B, up to what is already bound *)
          clear -Hx R.
          destruct c as [p args|e|a b|y l|body]; simpl in *; try discriminate;
            try (left; rewrite memv_app, Hx; reflexivity).
          destruct (bare_unbound (binds B c0 ++ B) a) as [xa|] eqn:Ea,
                   (bare_unbound (binds B c0 ++ B) b) as [xb|] eqn:Eb; simpl in Hx; try discriminate.
          - apply bare_unbound_some in Ea as [Ea Ma]. subst a.
            unfold memv in Hx. simpl in Hx. rewrite orb_false_r in Hx. apply Nat.eqb_eq in Hx. subst x.
            rewrite memv_app in Ma. apply orb_false_iff in Ma as [_ Ma].
            simpl in R. rewrite Ma in R. simpl in R.
            destruct (bare_unbound B b) eqn:Eb0; [discriminate|].
            left. unfold bare_unbound. rewrite Ma. unfold memv. simpl. rewrite Nat.eqb_refl. reflexivity.
          - apply bare_unbound_some in Eb as [Eb Mb]. subst b.
            unfold memv in Hx. simpl in Hx. rewrite orb_false_r in Hx. apply Nat.eqb_eq in Hx. subst x.
            rewrite memv_app in Mb. apply orb_false_iff in Mb as [_ Mb].
            simpl in R. destruct (bare_unbound B a) eqn:Ea0.
            + simpl in R. rewrite Mb in R. discriminate.
            + left. unfold bare_unbound at 1. rewrite Mb. unfold memv. simpl. rewrite Nat.eqb_refl. reflexivity. }
        destruct Hc as [Hc|Hc].
        -- rewrite memv_app, Hc. apply orb_true_r.
        -- pose proof (after_mono B (binds B c ++ B) c0 (sub_app_r _ _) R0 x Hc) as A2. exact A2.
      * pose proof (after_mono B (binds B c ++ B) c0 (sub_app_r _ _) R0 x Hx) as A2. exact A2.
Qed.

Lemma pick_ready B seen cs c rest :
  pick scope B seen cs = Some (c, rest) ->
  ready scope B c = true /\ exists l1 l2, cs = l1 ++ c :: l2 /\ rest = rev seen ++ l1 ++ l2.
Proof.
  revert seen. induction cs as [|d cs IH]; simpl; intros seen H; [discriminate|].
  destruct (ready scope B d) eqn:E.
  - inversion H; subst. split; [exact E|]. exists [], cs. auto.
  - destruct (IH _ H) as [R [l1 [l2 [E1 E2]]]]. split; [exact R|].
    exists (d :: l1), l2. subst. simpl. rewrite <- app_assoc. auto.
Qed.

Lemma Pick_split c l1 l2 : Pick c (l1 ++ c :: l2) (l1 ++ l2).
Proof. induction l1; simpl; constructor; assumption. Qed.

Lemma pick_none B seen cs : pick scope B seen cs = None -> forall c, In c cs -> ready scope B c = false.
Proof.
  revert seen. induction cs as [|d cs IH]; simpl; intros seen H c Hin; [contradiction|].
  destruct (ready scope B d) eqn:E; [discriminate|].
  destruct Hin as [Hin|Hin]; [subst; exact E | eapply IH; eassumption].
Qed.

Lemma Pick_In c l l' : Pick c l l' -> In c l.
Proof. induction 1; simpl; auto. Qed.

(* the greedy scheduler finds an order whenever one exists *)
Theorem schedule_complete : forall fuel B cs, length cs <= fuel -> sched B cs ->
  exists l, schedule scope fuel B cs = Some l.
Proof.
  induction fuel as [|fuel IH]; intros B cs L H.
  - destruct cs; [exists []; reflexivity | simpl in L; lia].
  - destruct cs as [|d cs']; [exists []; reflexivity|].
    cbn [schedule]. destruct (pick scope B [] (d :: cs')) as [[c rest]|] eqn:Ep.
    + destruct (pick_ready _ _ _ _ _ Ep) as [R [l1 [l2 [E1 E2]]]]. simpl in E2.
      assert (P : Pick c (d :: cs') rest) by (rewrite E1, E2; apply Pick_split).
      pose proof (sched_exchange _ _ H c rest P R) as H'.
      assert (L' : length rest <= fuel).
      { pose proof (Pick_length _ _ _ P) as E. simpl in E, L. lia. }
      destruct (IH _ _ L' H') as [l El]. rewrite El. eexists. reflexivity.
    + exfalso. inversion H as [|? ? c rest P R _]; subst.
      rewrite (pick_none _ _ _ Ep c (Pick_In _ _ _ P)) in R. discriminate.
Qed.

(* and what it returns is such an order *)
Theorem schedule_sound : forall fuel B cs l, schedule scope fuel B cs = Some l -> sched B cs.
Proof.
  induction fuel as [|fuel IH]; intros B cs l H.
  - destruct cs; [constructor | discriminate].
  - destruct cs as [|d cs']; [constructor|].
    cbn [schedule] in H. destruct (pick scope B [] (d :: cs')) as [[c rest]|] eqn:Ep; [|discriminate].
    destruct (schedule scope fuel (binds B c ++ B) rest) as [l'|] eqn:El; [|discriminate].
    destruct (pick_ready _ _ _ _ _ Ep) as [R [l1 [l2 [E1 E2]]]]. simpl in E2.
    subst rest. econstructor; [rewrite E1; apply Pick_split | exact R | eapply IH, El].
Qed.

(* the order it returns keeps every conjunct exactly once: nothing is dropped, nothing evaluated twice *)
Theorem schedule_is_permutation : forall fuel B cs l, schedule scope fuel B cs = Some l -> Permutation cs l.
Proof.
  induction fuel as [|fuel IH]; intros B cs l H.
  - destruct cs; [inversion H; constructor | discriminate].
  - destruct cs as [|d cs']; [inversion H; constructor|].
    cbn [schedule] in H. destruct (pick scope B [] (d :: cs')) as [[c rest]|] eqn:Ep; [|discriminate].
    destruct (schedule scope fuel (binds B c ++ B) rest) as [l'|] eqn:El; [|discriminate].
    inversion H; subst l. clear H.
    destruct (pick_ready _ _ _ _ _ Ep) as [_ [l1 [l2 [E1 E2]]]]. simpl in E2.
    rewrite E1. eapply perm_trans; [apply Permutation_sym, Permutation_middle|].
    apply perm_skip. rewrite <- E2. eapply IH, El.
Qed.

Lemma Pick_perm_inv c l l' m : Pick c l l' -> Permutation l m -> exists m', Pick c m m' /\ Permutation l' m'.
Proof.
  intros P Pm. pose proof (Pick_In _ _ _ P) as Hin.
  assert (Hin' : In c m) by (eapply Permutation_in; eassumption).
  apply in_split in Hin' as [m1 [m2 E]]. subst m. exists (m1 ++ m2). split; [apply Pick_split|].
  apply Pick_perm in P.
  apply Permutation_cons_inv with (a := c).
  eapply perm_trans; [apply Permutation_sym, P|].
  eapply perm_trans; [exact Pm|]. apply Permutation_sym, Permutation_middle.
Qed.

Lemma sched_perm B cs : sched B cs -> forall cs', Permutation cs cs' -> sched B cs'.
Proof.
  induction 1 as [B|B cs c rest P R _ IH]; intros cs' Pm.
  - apply Permutation_nil in Pm. subst. constructor.
  - destruct (Pick_perm_inv _ _ _ _ P Pm) as [m' [P' Pm']].
    econstructor; [exact P' | exact R | apply IH, Pm'].
Qed.

(* Whether a conjunction is range restricted does not depend on the order of its conjuncts. *)
Theorem range_restriction_order_independent : forall B cs cs', Permutation cs cs' ->
  (exists l, schedule scope (S (length cs)) B cs = Some l) <->
  (exists l, schedule scope (S (length cs')) B cs' = Some l).
Proof.
  intros B cs cs' Pm. split; intros [l H].
  - apply schedule_complete; [lia|]. eapply sched_perm; [eapply schedule_sound, H | exact Pm].
  - apply schedule_complete; [lia|]. eapply sched_perm; [eapply schedule_sound, H | apply Permutation_sym, Pm].
Qed.

End S.

(* an unschedulable conjunction is an error of the evaluator, never a result *)
Theorem unsafe_is_rejected n P D scope en cs :
  schedule scope (S (length cs)) (map fst en) cs = None ->
  eval_conj_list (S n) P D scope en cs = Fail E_UNSAFE.
Proof. intros H. cbn [eval_conj_list]. rewrite H. reflexivity. Qed.
