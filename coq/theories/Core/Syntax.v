(* Core Logica: abstract syntax (what the program generator of the harness produces, before the
   parser's rewrites: disjunction, negation, aggregating expressions and functional calls are
   first-class here). *)
From Coq Require Import List ZArith Bool.
Import ListNotations.

Definition var := nat.
Definition pred := nat.
Definition field := nat.   (* positional k |-> k (k < 50); logica_value |-> 99; named |-> 100 + id *)
Definition f_value : field := 99.

Inductive val :=
| VNull
| VInt (z : Z)
| VStr (s : list nat)
| VList (l : list val)
| VRec (fs : list (field * val)).

Inductive binop :=
| OAdd | OSub | OMul | OConcat
| OLt | OLe | OGt | OGe | OEq | ONe
| OAnd | OOr.

Inductive builtin := BSize | BRange | BElement | BIsNull | BNot | BToString | BGreatest | BLeast | BAbs.

Inductive aggop := ASum | AMin | AMax | ACount | AList | ASet | AArgMin | AArgMax | AAnyValue
  (* what the SQLite templates compute instead of the documented meaning (used only to classify a
     disagreement): null inputs kept / empty input gives [] or 0 instead of null *)
  | AListQ | ASetQ | ACountQ.

Inductive expr :=
| ENull
| EInt (z : Z)
| EStr (s : list nat)
| EVar (x : var)
| EBin (op : binop) (a b : expr)
| EList (es : list expr)
| ERec (fs : list (field * expr))
| EField (e : expr) (f : field)
| EIf (c t e : expr)
| EFun (f : builtin) (args : list expr)
| ECall (p : pred) (args : list (field * expr))          (* value of a functional predicate *)
| ECombine (op : aggop) (e : expr) (body : list conj)    (* Op{e :- body} *)
with conj :=
| CAtom (p : pred) (args : list (field * expr))
| CCond (e : expr)                                        (* comparison / boolean filter *)
| CUnify (a b : expr)
| CIn (x : expr) (l : expr)
| CNot (body : list conj).

(* propositions of rule bodies: conjunction and disjunction nest freely *)
Inductive prop :=
| PConj (c : conj)
| PAnd (ps : list prop)
| POr (ps : list prop).

Inductive hval :=
| HExpr (e : expr)
| HAgg (op : aggop) (e : expr).

Record rule := { r_head : list (field * hval); r_distinct : bool; r_body : prop }.

Inductive pkind := KTable | KFunc.   (* KFunc: injectible only (no finite extension of its own) *)

Record pdef := { p_name : pred; p_kind : pkind; p_rules : list rule }.

Definition program := list pdef.     (* in dependency order *)
