(* Model of compiler/rule_translate.py RuleStructure.SortUnnestings: the `in` conjuncts of a rule become
   FROM items UNNEST(list) AS x; an item whose list mentions the variable of another item must come after it.
   The code repeatedly takes, among the items all of whose dependencies are already placed, the one with the
   smallest variable name (sorted(dict.items()): Python string order), and raises "circular dependency of In
   calls" when no item is ready.
   An item is (variable name, variables its list expression mentions, combines included).
   Tied to the code by props/unnesttie.py (called from props/c09.py): same order or both reject.
   Proofs are in UnnestProofs.v. *)
From Coq Require Import List String Bool Arith.
Import ListNotations.
Local Open Scope string_scope.

Definition uitem := (string * list string)%type.

Definition smem (x : string) (l : list string) : bool := existsb (String.eqb x) l.

(* depends_on[v] = AllMentionedVariables(list) & unnesting_variables *)
Definition deps (allv : list string) (u : uitem) : list string := filter (fun v => smem v allv) (snd u).

(* depends_on[v] <= unnested *)
Definition ready (allv done : list string) (u : uitem) : bool := forallb (fun v => smem v done) (deps allv u).

(* the first ready item of sorted(unnesting_of.items()) = the ready item with the smallest name *)
Fixpoint min_ready (allv done : list string) (rem : list uitem) (best : option uitem) : option uitem :=
  match rem with
  | [] => best
  | u :: r =>
      let best' :=
        if ready allv done u then
          match best with
          | None => Some u
          | Some b => if String.ltb (fst u) (fst b) then Some u else best
          end
        else best in
      min_ready allv done r best'
  end.

Definition remove_name (n : string) (rem : list uitem) : list uitem :=
  filter (fun u => negb (String.eqb (fst u) n)) rem.

(* while unnesting_of: ...; None = RuleCompileException (circular dependency) *)
Fixpoint sort_go (fuel : nat) (allv : list string) (rem : list uitem) (done : list string) (acc : list uitem)
    : option (list uitem) :=
  match rem with
  | [] => Some (rev acc)
  | _ =>
      match fuel with
      | O => None
      | S f =>
          match min_ready allv done rem None with
          | None => None
          | Some u => sort_go f allv (remove_name (fst u) rem) (fst u :: done) (u :: acc)
          end
      end
  end.

Definition sort_unnestings (us : list uitem) : option (list uitem) :=
  sort_go (List.length us) (map fst us) us [] [].

(* Spec: a FROM order is well scoped when every item mentions only unnesting variables placed before it *)
Fixpoint scoped_order (allv placed : list string) (out : list uitem) : bool :=
  match out with
  | [] => true
  | u :: r => forallb (fun v => smem v placed) (deps allv u) && scoped_order allv (fst u :: placed) r
  end.

(* comparison with the real result: 0 same order, 1 both reject, 2 differ *)
Definition judge_unnest (us : list uitem) (real : option (list string)) : nat :=
  match sort_unnestings us, real with
  | None, None => 1
  | Some out, Some names =>
      if list_eq_dec string_dec (map fst out) names then 0 else 2
  | _, _ => 2
  end.
