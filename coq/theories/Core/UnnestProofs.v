(* Proofs about Core/Unnest.v (model of RuleStructure.SortUnnestings):
   the result is a permutation of the items, every item comes after the items whose variables its list
   mentions (so the emitted FROM list is well scoped left to right), and the procedure rejects ONLY when no
   well scoped order exists (a genuine circular dependency). *)
From Coq Require Import List String Bool Arith Lia Permutation.
Import ListNotations.
From LV Require Import Core.Unnest.

Lemma smem_In x l : smem x l = true <-> In x l.
Proof.
  unfold smem. rewrite existsb_exists. split.
  - intros [y [Hy E]]. apply String.eqb_eq in E. subst. exact Hy.
  - intros H. exists x. split; [exact H | apply String.eqb_refl].
Qed.

(* ---------- what min_ready returns ---------- *)
Lemma min_ready_some allv done : forall rem best u,
  min_ready allv done rem best = Some u -> (In u rem /\ ready allv done u = true) \/ best = Some u.
Proof.
  induction rem as [|w r IH]; intros best u H; simpl in H; [right; exact H|].
  apply IH in H. destruct H as [[Hin Hr]|H]; [left; split; [right; exact Hin | exact Hr]|].
  destruct (ready allv done w) eqn:Er; [|right; exact H].
  destruct best as [b|].
  - destruct (String.ltb (fst w) (fst b)); [|right; exact H].
    inversion H. subst. left. split; [left; reflexivity | exact Er].
  - inversion H. subst. left. split; [left; reflexivity | exact Er].
Qed.

Lemma min_ready_none allv done : forall rem best,
  min_ready allv done rem best = None -> best = None /\ forall u, In u rem -> ready allv done u = false.
Proof.
  induction rem as [|w r IH]; intros best H; simpl in H; [split; [exact H | intros ? []]|].
  apply IH in H. destruct H as [Hb Hall].
  destruct (ready allv done w) eqn:Er.
  - destruct best as [b|]; [destruct (String.ltb (fst w) (fst b))|]; discriminate.
  - split; [exact Hb|]. intros u [<-|Hin]; [exact Er | apply Hall, Hin].
Qed.

(* ---------- removing the chosen item ---------- *)
Lemma filter_len {A} (f : A -> bool) l : List.length (filter f l) <= List.length l.
Proof. induction l as [|a l IH]; simpl; [lia|]. destruct (f a); simpl; lia. Qed.

Lemma remove_name_In n rem x : In x (remove_name n rem) <-> In x rem /\ fst x <> n.
Proof.
  unfold remove_name. rewrite filter_In. split; intros [H1 H2]; split; try exact H1.
  - apply negb_true_iff in H2. intros E. subst. rewrite String.eqb_refl in H2. discriminate.
  - apply negb_true_iff. apply String.eqb_neq. exact H2.
Qed.

Lemma filter_all_id {A} (f : A -> bool) l : (forall x, In x l -> f x = true) -> filter f l = l.
Proof.
  induction l as [|a l IH]; intros H; simpl; [reflexivity|]. rewrite (H a (or_introl eq_refl)).
  f_equal. apply IH. intros x Hx. apply H. right. exact Hx.
Qed.

Lemma remove_name_length u rem : In u rem -> List.length (remove_name (fst u) rem) < List.length rem.
Proof.
  unfold remove_name. induction rem as [|w r IH]; [intros []|]. intros [->|Hin].
  - cbn [filter]. rewrite String.eqb_refl. cbn [negb].
    pose proof (filter_len (fun u0 => negb (String.eqb (fst u0) (fst u))) r). cbn [List.length]. unfold uitem in *. lia.
  - specialize (IH Hin). cbn [filter]. destruct (negb (String.eqb (fst w) (fst u))); cbn [List.length]; unfold uitem in *; lia.
Qed.

Lemma perm_remove u : forall rem, NoDup (map fst rem) -> In u rem ->
  Permutation rem (u :: remove_name (fst u) rem).
Proof.
  induction rem as [|w r IH]; simpl; intros ND Hin; [contradiction|].
  inversion ND as [|? ? Hw ND']. subst. destruct Hin as [->|Hin].
  - rewrite String.eqb_refl. simpl. apply perm_skip.
    assert (E : remove_name (fst u) r = r).
    { unfold remove_name. apply filter_all_id. intros x Hx. apply negb_true_iff.
      apply String.eqb_neq. intros E. apply Hw. rewrite <- E. apply in_map, Hx. }
    fold (remove_name (fst u) r). rewrite E. reflexivity.
  - assert (Hne : fst w <> fst u).
    { intros E. apply Hw. rewrite E. apply in_map, Hin. }
    apply String.eqb_neq in Hne. rewrite Hne. simpl.
    eapply perm_trans; [apply perm_skip, (IH ND' Hin) | apply perm_swap].
Qed.

Lemma nodup_remove n rem : NoDup (map fst rem) -> NoDup (map fst (remove_name n rem)).
Proof.
  induction rem as [|w r IH]; simpl; intros ND; [constructor|]. inversion ND as [|? ? Hw ND']. subst.
  destruct (negb (String.eqb (fst w) n)); [|apply IH, ND']. simpl. constructor; [|apply IH, ND'].
  intros Hin. apply Hw. apply in_map_iff in Hin as [x [Ex Hx]]. apply remove_name_In in Hx as [Hx _].
  rewrite <- Ex. apply in_map, Hx.
Qed.

(* ---------- T1: the result is a permutation of the input ---------- *)
Lemma sort_go_perm allv : forall fuel rem done acc out,
  NoDup (map fst rem) -> sort_go fuel allv rem done acc = Some out -> Permutation (rev acc ++ rem) out.
Proof.
  induction fuel as [|f IH]; intros rem done acc out ND H.
  - destruct rem; simpl in H; [|discriminate]. inversion H. rewrite app_nil_r. reflexivity.
  - destruct rem as [|w r] eqn:Er; [simpl in H; inversion H; rewrite app_nil_r; reflexivity|]. rewrite <- Er in *.
    assert (H' : match min_ready allv done rem None with
                 | None => None
                 | Some u => sort_go f allv (remove_name (fst u) rem) (fst u :: done) (u :: acc)
                 end = Some out) by (rewrite Er in *; exact H).
    destruct (min_ready allv done rem None) as [u|] eqn:Em; [|discriminate].
    destruct (min_ready_some _ _ _ _ _ Em) as [[Hin _]|Hb]; [|discriminate].
    apply IH in H'; [|apply nodup_remove, ND].
    eapply perm_trans; [|exact H']. simpl. rewrite <- app_assoc. simpl.
    apply Permutation_app_head. apply perm_remove; assumption.
Qed.

Theorem sort_is_permutation us out :
  NoDup (map fst us) -> sort_unnestings us = Some out -> Permutation us out.
Proof. intros ND H. apply (sort_go_perm _ _ _ _ _ _ ND) in H. exact H. Qed.

(* ---------- T2: every item comes after the items it depends on ---------- *)
Lemma scoped_order_app allv : forall a placed u,
  scoped_order allv placed (a ++ [u]) =
  scoped_order allv placed a && forallb (fun v => smem v (rev (map fst a) ++ placed)) (deps allv u).
Proof.
  induction a as [|w a IH]; intros placed u; simpl.
  - rewrite andb_true_r. reflexivity.
  - rewrite IH. rewrite <- app_assoc. simpl. rewrite andb_assoc. reflexivity.
Qed.

Lemma sort_go_scoped allv : forall fuel rem done acc out,
  done = map fst acc -> scoped_order allv [] (rev acc) = true ->
  sort_go fuel allv rem done acc = Some out -> scoped_order allv [] out = true.
Proof.
  induction fuel as [|f IH]; intros rem done acc out Hd Hs H.
  - destruct rem; simpl in H; [|discriminate]. inversion H. subst. exact Hs.
  - destruct rem as [|w r] eqn:Er; [simpl in H; inversion H; subst; exact Hs|]. rewrite <- Er in *.
    assert (H' : match min_ready allv done rem None with
                 | None => None
                 | Some u => sort_go f allv (remove_name (fst u) rem) (fst u :: done) (u :: acc)
                 end = Some out) by (rewrite Er in *; exact H).
    destruct (min_ready allv done rem None) as [u|] eqn:Em; [|discriminate].
    destruct (min_ready_some _ _ _ _ _ Em) as [[_ Hr]|Hb]; [|discriminate].
    eapply IH; [| |exact H'].
    + simpl. rewrite Hd. reflexivity.
    + simpl. rewrite scoped_order_app, Hs. simpl. rewrite map_rev, rev_involutive, app_nil_r.
      unfold ready in Hr. rewrite Hd in Hr. exact Hr.
Qed.

Theorem sort_is_scoped us out :
  sort_unnestings us = Some out -> scoped_order (map fst us) [] out = true.
Proof. intros H. eapply sort_go_scoped; [| |exact H]; reflexivity. Qed.

(* ---------- T3: rejection only when no well scoped order exists ---------- *)
Lemma uitem_dec (a b : uitem) : {a = b} + {a <> b}.
Proof. decide equality; [apply (list_eq_dec string_dec) | apply string_dec]. Qed.

Lemma some_ready allv done rem : forall out' placed,
  scoped_order allv placed out' = true ->
  (forall v, In v placed -> In v done) ->
  (forall u, In u out' -> In u rem \/ In (fst u) done) ->
  (exists w, In w out' /\ In w rem) ->
  exists w, In w rem /\ ready allv done w = true.
Proof.
  induction out' as [|u r IH]; intros placed Hs Hp Hcov [w [Hw1 Hw2]]; [contradiction|].
  simpl in Hs. apply andb_true_iff in Hs as [Hu Hs].
  destruct (in_dec uitem_dec u rem) as [Hin|Hnin].
  - exists u. split; [exact Hin|]. unfold ready. apply forallb_forall. intros v Hv.
    rewrite forallb_forall in Hu. specialize (Hu v Hv). apply smem_In. apply Hp. apply smem_In. exact Hu.
  - assert (Hd : In (fst u) done) by (destruct (Hcov u (or_introl eq_refl)); [contradiction | assumption]).
    apply (IH (fst u :: placed)); [exact Hs | | |].
    + intros v [<-|Hv]; [exact Hd | apply Hp, Hv].
    + intros x Hx. apply Hcov. right. exact Hx.
    + destruct Hw1 as [<-|Hw1]; [contradiction|]. exists w. split; assumption.
Qed.

Lemma sort_go_complete allv out' : scoped_order allv [] out' = true ->
  forall fuel rem done acc, List.length rem <= fuel ->
  (forall x, In x rem -> In x out') ->
  (forall u, In u out' -> In u rem \/ In (fst u) done) ->
  sort_go fuel allv rem done acc <> None.
Proof.
  intros Hs. induction fuel as [|f IH]; intros rem done acc Hlen Hsub Hcov.
  - destruct rem; simpl in *; [discriminate | lia].
  - destruct rem as [|w r] eqn:Er; [simpl; discriminate|]. rewrite <- Er in *.
    assert (E : sort_go (S f) allv rem done acc =
                match min_ready allv done rem None with
                | None => None
                | Some u => sort_go f allv (remove_name (fst u) rem) (fst u :: done) (u :: acc)
                end) by (rewrite Er; reflexivity).
    rewrite E. clear E.
    destruct (min_ready allv done rem None) as [u|] eqn:Em.
    + destruct (min_ready_some _ _ _ _ _ Em) as [[Hin _]|Hb]; [|discriminate].
      apply IH.
      * pose proof (remove_name_length u rem Hin). unfold uitem in *. lia.
      * intros x Hx. apply remove_name_In in Hx as [Hx _]. apply Hsub, Hx.
      * intros x Hx. destruct (Hcov x Hx) as [Hr|Hd]; [|right; right; exact Hd].
        destruct (string_dec (fst x) (fst u)) as [Ee|Ne]; [right; left; symmetry; exact Ee|].
        left. apply remove_name_In. split; assumption.
    + exfalso. apply min_ready_none in Em as [_ Hall].
      destruct (some_ready allv done rem out' [] Hs) as [w0 [Hw Hr]].
      * intros v [].
      * exact Hcov.
      * exists w. split; [apply Hsub; rewrite Er; left; reflexivity | rewrite Er; left; reflexivity].
      * rewrite (Hall w0 Hw) in Hr. discriminate.
Qed.

Theorem sort_rejects_only_cycles us out' :
  Permutation us out' -> scoped_order (map fst us) [] out' = true -> sort_unnestings us <> None.
Proof.
  intros P Hs. unfold sort_unnestings. apply (sort_go_complete _ out' Hs).
  - lia.
  - intros x Hx. eapply Permutation_in; [exact P | exact Hx].
  - intros u Hu. left. eapply Permutation_in; [apply Permutation_sym, P | exact Hu].
Qed.

(* ---------- T4: the decision is exact ---------- *)
(* For items with distinct names the sort succeeds exactly when some arrangement of the same items puts every
   item after the items it depends on; the arrangement it returns is one of them. *)
Corollary sort_succeeds_iff_orderable us :
  NoDup (map fst us) ->
  (sort_unnestings us <> None <->
   exists out', Permutation us out' /\ scoped_order (map fst us) [] out' = true).
Proof.
  intros ND. split.
  - destruct (sort_unnestings us) as [out|] eqn:E; [intros _ | intros H; exfalso; apply H; reflexivity].
    exists out. split; [apply sort_is_permutation; assumption | apply sort_is_scoped; assumption].
  - intros [out' [P Hs]]. eapply sort_rejects_only_cycles; eassumption.
Qed.
