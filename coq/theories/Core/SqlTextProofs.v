(* For-all lemmas about Core/SqlText.v: the scanning automaton is compositional, closed texts can be
   concatenated / parenthesised / joined, string literals are closed, and instantiating a template whose
   holes stand outside literals with closed arguments gives exactly the state the template alone gives. *)
From Coq Require Import List String NArith Bool Arith Lia.
Import ListNotations.
From LV Require Import Core.DialectSig Core.SqlText.
Local Open Scope N_scope.

(* ---- scan is a fold -------------------------------------------------------------------------- *)
Lemma scan_app : forall qs a b s,
  scan qs s (a ++ b) = match scan qs s a with Some s' => scan qs s' b | None => None end.
Proof.
  induction a as [|c a IH]; intros b s; simpl; [reflexivity|].
  destruct (step qs s c); [apply IH|reflexivity].
Qed.

Lemma step_frame : forall qs m s1 c m' s2 st,
  step qs (m, s1) c = Some (m', s2) -> step qs (m, s1 ++ st) c = Some (m', s2 ++ st).
Proof.
  intros qs m s1 c m' s2 st H. unfold step in *.
  destruct m.
  - destruct (is_quote c); [inversion H; subst; reflexivity|].
    destruct (is_open c); [inversion H; subst; reflexivity|].
    destruct (open_of c) as [o|].
    + destruct s1 as [|t s1']; [discriminate|]. simpl.
      destruct (t =? o); [inversion H; subst; reflexivity|discriminate].
    + inversion H; subst; reflexivity.
  - destruct (c =? q); [inversion H; subst; reflexivity|].
    destruct ((c =? 92) && bs_active qs q); inversion H; subst; reflexivity.
  - inversion H; subst; reflexivity.
Qed.

Lemma scan_frame : forall qs t m s1 m' s2 st,
  scan qs (m, s1) t = Some (m', s2) -> scan qs (m, s1 ++ st) t = Some (m', s2 ++ st).
Proof.
  induction t as [|c t IH]; intros m s1 m' s2 st H; cbn [scan] in *.
  - inversion H; subst; reflexivity.
  - destruct (step qs (m, s1) c) as [[m1 s1']|] eqn:E; [|discriminate].
    rewrite (step_frame _ _ _ _ _ _ st E). apply IH; exact H.
Qed.

Theorem balanced_closed : forall qs t, balanced qs t = true -> closed qs t.
Proof.
  intros qs t H st. unfold balanced in H.
  destruct (scan qs (MNorm, []) t) as [[m s]|] eqn:E; [|discriminate H].
  destruct m; try discriminate H. destruct s; [|discriminate H].
  apply (scan_frame qs t MNorm [] MNorm [] st E).
Qed.

Theorem closed_balanced : forall qs t, closed qs t -> balanced qs t = true.
Proof. intros qs t H. unfold balanced. rewrite (H []). reflexivity. Qed.

Theorem closed_nil : forall qs, closed qs [].
Proof. intros qs st. reflexivity. Qed.

Theorem closed_app : forall qs a b, closed qs a -> closed qs b -> closed qs (a ++ b).
Proof. intros qs a b Ha Hb st. rewrite scan_app, Ha. apply Hb. Qed.

Theorem closed_concat : forall qs l, Forall (closed qs) l -> closed qs (List.concat l).
Proof.
  induction 1; simpl; [apply closed_nil|apply closed_app; assumption].
Qed.

(* brackets: ( ) [ ] { } *)
Definition bracket_pair (o c : N) : Prop := (o = 40 /\ c = 41) \/ (o = 91 /\ c = 93) \/ (o = 123 /\ c = 125).

Theorem closed_bracket : forall qs o c a, bracket_pair o c -> closed qs a -> closed qs (o :: a ++ [c]).
Proof.
  intros qs o c a Hp Ha st.
  assert (Ho : step qs (MNorm, st) o = Some (MNorm, o :: st)).
  { destruct Hp as [[-> _]|[[-> _]|[-> _]]]; reflexivity. }
  assert (Hc : step qs (MNorm, o :: st) c = Some (MNorm, st)).
  { destruct Hp as [[-> ->]|[[-> ->]|[-> ->]]]; reflexivity. }
  change (o :: a ++ [c]) with ([o] ++ a ++ [c]).
  rewrite scan_app. cbn [scan]. rewrite Ho. rewrite scan_app, (Ha (o :: st)). cbn [scan]. rewrite Hc. reflexivity.
Qed.

Corollary closed_paren : forall qs a, closed qs a -> closed qs (40 :: a ++ [41]).
Proof. intros. apply closed_bracket; [left; split; reflexivity|assumption]. Qed.

(* inert characters leave the automaton where it is, inside or outside a literal *)
Lemma is_quote_eq : forall c q, is_quote q = true -> is_quote c = false -> (c =? q) = false.
Proof.
  intros c q Hq Hc. destruct (c =? q) eqn:E; [|reflexivity].
  apply N.eqb_eq in E. subst. congruence.
Qed.

Lemma inert_step_norm : forall qs c st, inert_char c = true -> step qs (MNorm, st) c = Some (MNorm, st).
Proof.
  intros qs c st H. unfold inert_char in H. rewrite negb_true_iff in H.
  repeat rewrite orb_false_iff in H. destruct H as [[[Hq Ho] Hc] Hb].
  unfold step. rewrite Hq, Ho. destruct (open_of c); [discriminate|reflexivity].
Qed.

Lemma inert_step_str : forall qs c st q, inert_char c = true -> is_quote q = true ->
  step qs (MStr q, st) c = Some (MStr q, st).
Proof.
  intros qs c st q H Hq'. unfold inert_char in H. rewrite negb_true_iff in H.
  repeat rewrite orb_false_iff in H. destruct H as [[[Hq Ho] Hc] Hb].
  unfold step. rewrite (is_quote_eq c q Hq' Hq), Hb. reflexivity.
Qed.

Lemma inert_scan_norm : forall qs t st, inert t = true -> scan qs (MNorm, st) t = Some (MNorm, st).
Proof.
  induction t as [|c t IH]; intros st H; [reflexivity|].
  cbn [inert forallb] in H. apply andb_true_iff in H. destruct H as [Hc Ht].
  cbn [scan]. rewrite (inert_step_norm qs c st Hc). apply IH; exact Ht.
Qed.

Lemma inert_scan_str : forall qs t st q, inert t = true -> is_quote q = true ->
  scan qs (MStr q, st) t = Some (MStr q, st).
Proof.
  induction t as [|c t IH]; intros st q H Hq; [reflexivity|].
  cbn [inert forallb] in H. apply andb_true_iff in H. destruct H as [Hc Ht].
  cbn [scan]. rewrite (inert_step_str qs c st q Hc Hq). apply IH; assumption.
Qed.

Theorem closed_inert : forall qs t, inert t = true -> closed qs t.
Proof. intros qs t H st. apply inert_scan_norm; exact H. Qed.

Theorem closed_join : forall qs sep l, closed qs sep -> Forall (closed qs) l -> closed qs (join sep l).
Proof.
  intros qs sep l Hs H. induction H as [|a l Ha Hl IH]; [apply closed_nil|].
  simpl. destruct l as [|b l']; [exact Ha|].
  apply closed_app; [exact Ha|]. apply closed_app; [exact Hs|exact IH].
Qed.

(* ---- string literals ---------------------------------------------------------------------------- *)
(* the body of a literal written with quote q: no bare q (a doubled q is fine), no backslash when the
   engine reads backslash escapes *)
Fixpoint literal_body (qs : qstyle) (q : N) (l : text) : bool :=
  match l with
  | [] => true
  | c :: r =>
      if c =? q then match r with c2 :: r2 => (c2 =? q) && literal_body qs q r2 | [] => false end
      else negb ((c =? 92) && bs_active qs q) && literal_body qs q r
  end.

Lemma step_str_close : forall qs q st, step qs (MStr q, st) q = Some (MNorm, st).
Proof. intros. unfold step. rewrite N.eqb_refl. reflexivity. Qed.

Lemma step_norm_quote : forall qs q st, is_quote q = true -> step qs (MNorm, st) q = Some (MStr q, st).
Proof. intros qs q st H. unfold step. rewrite H. reflexivity. Qed.

Lemma step_str_other : forall qs q c st, (c =? q) = false -> ((c =? 92) && bs_active qs q) = false ->
  step qs (MStr q, st) c = Some (MStr q, st).
Proof. intros qs q c st H1 H2. unfold step. rewrite H1, H2. reflexivity. Qed.

Lemma literal_body_scan : forall qs q, is_quote q = true -> forall n l st,
  (List.length l <= n)%nat -> literal_body qs q l = true -> scan qs (MStr q, st) l = Some (MStr q, st).
Proof.
  intros qs q Hq. induction n as [|n IH]; intros l st Hn H.
  - destruct l; [reflexivity|simpl in Hn; lia].
  - destruct l as [|c r]; [reflexivity|]. cbn [literal_body] in H.
    destruct (c =? q) eqn:E.
    + destruct r as [|c2 r2]; [discriminate|]. apply andb_true_iff in H. destruct H as [E2 H].
      apply N.eqb_eq in E. apply N.eqb_eq in E2. subst c c2.
      cbn [scan]. rewrite step_str_close. rewrite (step_norm_quote qs q st Hq).
      apply IH; [simpl in Hn; lia|exact H].
    + apply andb_true_iff in H. destruct H as [Hb H]. apply negb_true_iff in Hb.
      cbn [scan]. rewrite (step_str_other qs q c st E Hb).
      apply IH; [simpl in Hn; lia|exact H].
Qed.

(* A literal q body q is one closed unit, whatever brackets, keywords or placeholders its body holds. *)
Theorem string_literal_closed : forall qs q body, is_quote q = true -> literal_body qs q body = true ->
  closed qs (q :: body ++ [q]).
Proof.
  intros qs q body Hq Hb st. cbn [scan]. rewrite (step_norm_quote qs q st Hq).
  rewrite scan_app. rewrite (literal_body_scan qs q Hq (List.length body) body st (le_n _) Hb).
  cbn [scan]. rewrite step_str_close. reflexivity.
Qed.

(* the quote-doubling escape used by QL.StrLiteral for '...' produces a literal body, provided the
   engine does not read backslashes (sqlite, psql, presto, trino) or the string has none *)
Fixpoint double_quote (q : N) (l : text) : text :=
  match l with [] => [] | c :: r => if c =? q then q :: q :: double_quote q r else c :: double_quote q r end.

Lemma double_quote_body : forall qs q l, (bs_active qs q = false \/ forallb (fun c => negb (c =? 92)) l = true) ->
  literal_body qs q (double_quote q l) = true.
Proof.
  intros qs q l H. induction l as [|c r IH]; [reflexivity|].
  assert (Hr : bs_active qs q = false \/ forallb (fun c => negb (c =? 92)) r = true).
  { destruct H as [H|H]; [left; exact H|right]. simpl in H. apply andb_true_iff in H. apply H. }
  simpl. destruct (c =? q) eqn:E.
  - cbn [literal_body]. rewrite N.eqb_refl. simpl. apply IH; exact Hr.
  - cbn [literal_body]. rewrite E. rewrite (IH Hr). rewrite andb_true_r.
    apply negb_true_iff. destruct H as [H|H].
    + rewrite H. apply andb_false_r.
    + simpl in H. apply andb_true_iff in H. destruct H as [H _]. apply negb_true_iff in H. rewrite H. reflexivity.
Qed.

Theorem quoted_string_closed : forall qs s, q_sq_bs qs = false -> closed qs (39 :: double_quote 39 s ++ [39]).
Proof.
  intros qs s H. apply string_literal_closed; [reflexivity|].
  apply double_quote_body. left. unfold bs_active. simpl. exact H.
Qed.

(* ---- templates ------------------------------------------------------------------------------------ *)
Lemma tscan_frame : forall qs allow t m s1 m' s2 st,
  tscan qs allow (m, s1) t = Some (m', s2) -> tscan qs allow (m, s1 ++ st) t = Some (m', s2 ++ st).
Proof.
  induction t as [|p t IH]; intros m s1 m' s2 st H; cbn [tscan] in *.
  - inversion H; subst; reflexivity.
  - destruct p as [c|k].
    + destruct (step qs (m, s1) c) as [[m1 s1']|] eqn:E; [|discriminate].
      rewrite (step_frame _ _ _ _ _ _ st E). apply IH; exact H.
    + destruct m; cbn [fst] in *.
      * apply IH; exact H.
      * destruct (allow k); [apply IH; exact H|discriminate].
      * discriminate.
Qed.

(* what an argument has to satisfy to be put into hole k *)
Definition arg_ok (qs : qstyle) (allow : key -> bool) (k : key) (a : text) : Prop :=
  if allow k then inert a = true else closed qs a.

(* modes reached from MNorm only ever carry quote characters *)
Definition mode_wf (m : mode) : Prop :=
  match m with MNorm => True | MStr q => is_quote q = true | MEsc q => is_quote q = true end.

Lemma step_mode_wf : forall qs m st c m' st', mode_wf m -> step qs (m, st) c = Some (m', st') -> mode_wf m'.
Proof.
  intros qs m st c m' st' W H. unfold step in H. destruct m; simpl in W.
  - destruct (is_quote c) eqn:Q; [inversion H; subst; exact Q|].
    destruct (is_open c); [inversion H; subst; exact I|].
    destruct (open_of c).
    + destruct st as [|t st0]; [discriminate|]. destruct (t =? n); inversion H; subst; exact I.
    + inversion H; subst; exact I.
  - destruct (c =? q); [inversion H; subst; exact I|].
    destruct ((c =? 92) && bs_active qs q); inversion H; subst; exact W.
  - inversion H; subst; exact W.
Qed.

(* The template theorem: if the template alone (holes skipped) drives the automaton from s to s', and
   every hole is filled with an argument that is closed (or inert, for holes allowed inside literals),
   then the instantiated text drives it from s to s' as well. *)
Theorem inst_scan : forall qs allow lookup t s s' out,
  mode_wf (fst s) ->
  tscan qs allow s t = Some s' ->
  (forall k a, In k (holes t) -> lookup k = Some a -> arg_ok qs allow k a) ->
  inst lookup t = Some out ->
  scan qs s out = Some s'.
Proof.
  induction t as [|p t IH]; intros s s' out W Ht Hargs Hi; cbn [inst tscan holes] in *.
  - inversion Hi; subst. exact Ht.
  - destruct p as [c|k].
    + destruct (inst lookup t) as [o|] eqn:Eo; [|discriminate]. simpl in Hi. inversion Hi; subst out.
      destruct s as [m st]. destruct (step qs (m, st) c) as [[m1 st1]|] eqn:E; [|discriminate].
      cbn [scan]. rewrite E. apply (IH (m1, st1) s' o); [|exact Ht|exact Hargs|reflexivity].
      cbn [fst] in *. eapply step_mode_wf; [exact W|exact E].
    + destruct (lookup k) as [a|] eqn:Ea; [|discriminate].
      destruct (inst lookup t) as [o|] eqn:Eo; [|discriminate]. inversion Hi; subst out.
      assert (Ha := Hargs k a (or_introl eq_refl) Ea). unfold arg_ok in Ha.
      assert (Hargs' : forall k0 a0, In k0 (holes t) -> lookup k0 = Some a0 -> arg_ok qs allow k0 a0).
      { intros k0 a0 Hin Hl. apply Hargs; [right; exact Hin|exact Hl]. }
      destruct s as [m st]. cbn [fst] in *. rewrite scan_app. destruct m.
      * assert (Hrest : scan qs (MNorm, st) o = Some s').
        { apply (IH (MNorm, st) s' o); [exact W|exact Ht|exact Hargs'|reflexivity]. }
        destruct (allow k).
        -- rewrite (inert_scan_norm qs a st Ha). exact Hrest.
        -- rewrite (Ha st). exact Hrest.
      * destruct (allow k); [|discriminate].
        rewrite (inert_scan_str qs a st q Ha W).
        apply (IH (MStr q, st) s' o); [exact W|exact Ht|exact Hargs'|reflexivity].
      * discriminate.
Qed.

Corollary inst_closed : forall qs allow lookup t out,
  tclosed qs allow t = true ->
  (forall k a, In k (holes t) -> lookup k = Some a -> arg_ok qs allow k a) ->
  inst lookup t = Some out ->
  closed qs out.
Proof.
  intros qs allow lookup t out Hc Hargs Hi st.
  unfold tclosed in Hc. destruct (tscan qs allow (MNorm, []) t) as [[m s]|] eqn:E; [|discriminate Hc].
  destruct m; try discriminate Hc. destruct s; [|discriminate Hc].
  apply (inst_scan qs allow lookup t (MNorm, st) (MNorm, st) out); auto.
  - exact I.
  - apply (tscan_frame qs allow t MNorm [] MNorm [] st E).
Qed.

(* instantiation is total when every hole has an argument *)
Lemma inst_total : forall lookup t, (forall k, In k (holes t) -> lookup k <> None) -> exists out, inst lookup t = Some out.
Proof.
  induction t as [|p t IH]; intros H; simpl.
  - eexists; reflexivity.
  - destruct p as [c|k].
    + destruct IH as [o Ho]; [exact H|]. rewrite Ho. eexists; reflexivity.
    + simpl in H. destruct (lookup k) as [a|] eqn:Ea; [|exfalso; apply (H k); auto].
      destruct IH as [o Ho]; [intros; apply H; auto|]. rewrite Ho. eexists; reflexivity.
Qed.

(* ---- the instantiation sites ---------------------------------------------------------------------- *)
Lemma parse_pct_holes : forall m l n t, (List.length l <= m)%nat -> parse_pct n l = Some t ->
  holes t = map KIdx (seq n (List.length (holes t))).
Proof.
  induction m as [|m IH]; intros l n t Hm H.
  - destruct l; [|simpl in Hm; lia]. simpl in H. inversion H; subst. reflexivity.
  - destruct l as [|c r]; [simpl in H; inversion H; subst; reflexivity|].
    cbn [parse_pct] in H. destruct (c =? 37).
    + destruct r as [|c2 r2]; [discriminate|].
      destruct (c2 =? 115).
      * destruct (parse_pct (S n) r2) as [t'|] eqn:E; [|discriminate]. simpl in H. inversion H; subst t.
        cbn [holes List.length seq map]. f_equal. apply (IH r2 (S n) t'); [simpl in Hm; lia|exact E].
      * destruct (c2 =? 37); [|discriminate].
        destruct (parse_pct n r2) as [t'|] eqn:E; [|discriminate]. simpl in H. inversion H; subst t.
        cbn [holes]. apply (IH r2 n t'); [simpl in Hm; lia|exact E].
    + destruct (parse_pct n r) as [t'|] eqn:E; [|discriminate]. simpl in H. inversion H; subst t.
      cbn [holes]. apply (IH r n t'); [simpl in Hm; lia|exact E].
Qed.

Lemma comma_sp_closed : forall qs, closed qs comma_sp.
Proof. intros qs. apply closed_inert. reflexivity. Qed.

Lemma forall_nth_error : forall (P : text -> Prop) l i a, Forall P l -> nth_error l i = Some a -> P a.
Proof.
  intros P l i a H. revert i. induction H; intros i E; destruct i; simpl in E; try discriminate.
  - inversion E; subst; assumption.
  - eapply IHForall; exact E.
Qed.

Lemma nth_error_some_lt : forall (l : list text) i, (i < List.length l)%nat -> nth_error l i <> None.
Proof. intros l i H. apply nth_error_Some. exact H. Qed.

Lemma key_idx_below_inv : forall n k, key_idx_below n k = true -> exists i, k = KIdx i /\ (i < n)%nat.
Proof.
  intros n k H. destruct k as [i|s]; [|discriminate]. exists i. split; [reflexivity|].
  simpl in H. apply Nat.ltb_lt in H. exact H.
Qed.

(* f.format( *args) with every index below the number of arguments *)
Lemma format_site : forall qs t args n,
  forallb (key_idx_below n) (holes t) = true -> tclosed qs no_allow t = true ->
  (n <= List.length args)%nat -> Forall (closed qs) args ->
  exists out, inst (by_index args) t = Some out /\ closed qs out.
Proof.
  intros qs t args n Hk Hc Hn Ha.
  rewrite forallb_forall in Hk.
  destruct (inst_total (by_index args) t) as [out Ho].
  { intros k Hin. destruct (key_idx_below_inv n k (Hk k Hin)) as [i [-> Hi]]. simpl.
    apply nth_error_some_lt. lia. }
  exists out. split; [exact Ho|].
  apply (inst_closed qs no_allow (by_index args) t out Hc); [|exact Ho].
  intros k a Hin Hl. unfold arg_ok, no_allow.
  destruct (key_idx_below_inv n k (Hk k Hin)) as [i [-> Hi]]. simpl in Hl.
  eapply forall_nth_error; [exact Ha|exact Hl].
Qed.

(* f % (a0, .., a(n-1)) with exactly n directives *)
Lemma percent_site : forall qs allow f t args,
  parse_pct 0 f = Some t -> List.length (holes t) = List.length args -> tclosed qs allow t = true ->
  (forall i a, nth_error args i = Some a -> arg_ok qs allow (KIdx i) a) ->
  exists out, inst (by_index args) t = Some out /\ closed qs out.
Proof.
  intros qs allow f t args Hp Hl Hc Ha.
  assert (Hh := parse_pct_holes (List.length f) f 0%nat t (le_n _) Hp).
  destruct (inst_total (by_index args) t) as [out Ho].
  { intros k Hin. rewrite Hh in Hin. apply in_map_iff in Hin. destruct Hin as [i [<- Hi]].
    apply in_seq in Hi. simpl. apply nth_error_some_lt. lia. }
  exists out. split; [exact Ho|].
  apply (inst_closed qs allow (by_index args) t out Hc); [|exact Ho].
  intros k a Hin Hlk. rewrite Hh in Hin. apply in_map_iff in Hin. destruct Hin as [i [<- Hi]].
  simpl in Hlk. apply Ha. exact Hlk.
Qed.

Theorem function_inst_ok : forall qs f lo args,
  function_template_ok qs f lo = true -> (lo <= List.length args)%nat -> Forall (closed qs) args ->
  exists out, inst_function f args = Some out /\ closed qs out.
Proof.
  intros qs f lo args H Hlo Ha. unfold function_template_ok in H. unfold inst_function.
  destruct (contains pct_s f).
  - destruct (parse_pct 0 f) as [t|] eqn:Ep; [|discriminate].
    apply andb_true_iff in H. destruct H as [Hn Hc]. rewrite Hn. apply Nat.eqb_eq in Hn.
    apply (percent_site qs no_allow f t [join comma_sp args] Ep); [simpl; exact Hn|exact Hc|].
    intros i a E. unfold arg_ok, no_allow. destruct i; simpl in E.
    + inversion E; subst. apply closed_join; [apply comma_sp_closed|exact Ha].
    + destruct i; discriminate.
  - destruct (parse_fmt f) as [t|] eqn:Ep; [|discriminate].
    apply andb_true_iff in H. destruct H as [Hk Hc].
    apply (format_site qs t args lo Hk Hc Hlo Ha).
Qed.

Theorem infix_inst_ok : forall qs op l r,
  infix_template_ok qs op = true -> closed qs l -> closed qs r ->
  exists out, inst_infix op l r = Some out /\ closed qs out.
Proof.
  intros qs op l r H Hl Hr. unfold infix_template_ok in H. unfold inst_infix.
  assert (Hbody : exists b,
    (if contains pct_s op
     then match parse_pct 0 op with
          | Some t => if Nat.eqb (List.length (holes t)) 2 then inst (by_index [l; r]) t else None
          | None => None end
     else match parse_fmt op with Some t => inst (by_left_right l r) t | None => None end) = Some b
    /\ closed qs b).
  { destruct (contains pct_s op).
    - destruct (parse_pct 0 op) as [t|] eqn:Ep; [|discriminate].
      apply andb_true_iff in H. destruct H as [Hn Hc]. rewrite Hn. apply Nat.eqb_eq in Hn.
      apply (percent_site qs no_allow op t [l; r] Ep); [simpl; exact Hn|exact Hc|].
      intros i a E. unfold arg_ok, no_allow. destruct i as [|[|i]]; simpl in E.
      + inversion E; subst; exact Hl.
      + inversion E; subst; exact Hr.
      + destruct i; discriminate.
    - destruct (parse_fmt op) as [t|] eqn:Ep; [|discriminate].
      apply andb_true_iff in H. destruct H as [Hk Hc]. rewrite forallb_forall in Hk.
      assert (Hlr : forall k, In k (holes t) -> by_left_right l r k = Some l \/ by_left_right l r k = Some r).
      { intros k Hin. specialize (Hk k Hin). destruct k as [i|n]; [discriminate|]. simpl in *.
        destruct (text_eqb n name_left); [left; reflexivity|]. simpl in Hk. rewrite Hk. right; reflexivity. }
      destruct (inst_total (by_left_right l r) t) as [out Ho].
      { intros k Hin. destruct (Hlr k Hin) as [E|E]; rewrite E; discriminate. }
      exists out. split; [exact Ho|].
      apply (inst_closed qs no_allow (by_left_right l r) t out Hc); [|exact Ho].
      intros k a Hin E. unfold arg_ok, no_allow.
      destruct (Hlr k Hin) as [E'|E']; rewrite E' in E; inversion E; subst; assumption. }
  destruct Hbody as [b [Hb Hcb]]. rewrite Hb. simpl.
  eexists. split; [reflexivity|]. apply closed_paren. exact Hcb.
Qed.

Theorem format_inst_ok : forall qs f args,
  format_template_ok qs f (List.length args) = true -> Forall (closed qs) args ->
  exists out, inst_format f args = Some out /\ closed qs out.
Proof.
  intros qs f args H Ha. unfold format_template_ok in H. unfold inst_format.
  destruct (parse_fmt f) as [t|]; [|discriminate].
  apply andb_true_iff in H. destruct H as [Hk Hc].
  apply (format_site qs t args (List.length args) Hk Hc (le_n _) Ha).
Qed.

Theorem percent_inst_ok : forall qs allow f args,
  percent_template_ok qs allow f (List.length args) = true ->
  (forall i a, nth_error args i = Some a -> arg_ok qs allow (KIdx i) a) ->
  exists out, inst_percent f args = Some out /\ closed qs out.
Proof.
  intros qs allow f args H Ha. unfold percent_template_ok in H. unfold inst_percent.
  destruct (parse_pct 0 f) as [t|] eqn:Ep; [|discriminate].
  apply andb_true_iff in H. destruct H as [Hn Hc]. rewrite Hn. apply Nat.eqb_eq in Hn.
  apply (percent_site qs allow f t args Ep Hn Hc Ha).
Qed.

(* ---- the tokenizer reads a string literal as one token -------------------------------------------- *)
Definition plain_body (qs : qstyle) (q : N) (body : text) : bool :=
  forallb (fun c => negb (c =? q) && negb ((c =? 92) && bs_active qs q)) body.

Lemma lex_body : forall qs q body out, plain_body qs q body = true ->
  fold_left (lex_step qs) body {| lx_mode := MStr q; lx_cur := None; lx_out := out |} =
  {| lx_mode := MStr q; lx_cur := None; lx_out := out |}.
Proof.
  induction body as [|c r IH]; intros out H; [reflexivity|].
  cbn [plain_body forallb] in H. apply andb_true_iff in H. destruct H as [Hc Hr].
  apply andb_true_iff in Hc. destruct Hc as [H1 H2]. apply negb_true_iff in H1. apply negb_true_iff in H2.
  cbn [fold_left]. unfold lex_step at 2. cbn [lx_mode]. rewrite H1, H2. apply IH. exact Hr.
Qed.

Theorem lex_string_literal : forall qs q body, is_quote q = true -> plain_body qs q body = true ->
  lex qs (q :: body ++ [q]) = Some [TStr q].
Proof.
  intros qs q body Hq Hb. unfold lex. cbn [fold_left].
  assert (E0 : lex_step qs lex_init q = {| lx_mode := MStr q; lx_cur := None; lx_out := [] |}).
  { unfold lex_step, lex_init. cbn [lx_mode lx_cur lx_out].
    assert (Hid : is_idch q = false).
    { unfold is_quote in Hq. repeat rewrite orb_true_iff in Hq.
      destruct Hq as [[Hq|Hq]|Hq]; apply N.eqb_eq in Hq; subst q; reflexivity. }
    rewrite Hid. rewrite Hq. reflexivity. }
  rewrite E0. rewrite fold_left_app. rewrite (lex_body qs q body [] Hb).
  cbn [fold_left]. unfold lex_step. cbn [lx_mode lx_out]. rewrite N.eqb_refl. reflexivity.
Qed.
