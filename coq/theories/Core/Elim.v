(* Model of compiler/rule_translate.py RuleStructure.ElliminateInternalVariables and
   UnificationsToConstraints on the conjunctive fragment (no combines, no record patterns, no `in`):
   internal variables are eliminated by substituting the other side of a unification, in the textual
   order and with the side conditions of the Python loop; what is left of the unifications becomes
   WHERE equalities.  Tied to the code by props/c01.py (elimination tie): the real
   ExtractRuleStructure output is fed to `eliminate` and the result is compared with the real
   structure after ElliminateInternalVariables.  Proofs are in ElimProofs.v. *)
From Coq Require Import List ZArith Bool Arith.
Import ListNotations.
From LV Require Import Core.Syntax Core.Eval.

(* expressions of the fragment; FOther n = a built-in the model treats as an uninterpreted function *)
Inductive pexpr :=
| PVar (x : var)
| PLit (v : val)
| PBin (op : binop) (a b : pexpr)
| PIf (c t e : pexpr)
| PApp (f : nat) (args : list pexpr).

Fixpoint pexpr_eqb (a b : pexpr) {struct a} : bool :=
  match a, b with
  | PVar x, PVar y => Nat.eqb x y
  | PLit u, PLit v => val_eqb u v
  | PBin o a1 a2, PBin p b1 b2 =>
      (match o, p with
       | OAdd, OAdd | OSub, OSub | OMul, OMul | OConcat, OConcat | OLt, OLt | OLe, OLe | OGt, OGt
       | OGe, OGe | OEq, OEq | ONe, ONe | OAnd, OAnd | OOr, OOr => true | _, _ => false end)
      && pexpr_eqb a1 b1 && pexpr_eqb a2 b2
  | PIf a1 a2 a3, PIf b1 b2 b3 => pexpr_eqb a1 b1 && pexpr_eqb a2 b2 && pexpr_eqb a3 b3
  | PApp f xs, PApp g ys =>
      Nat.eqb f g &&
      (fix go (l1 l2 : list pexpr) : bool :=
         match l1, l2 with
         | [], [] => true
         | x :: l1', y :: l2' => pexpr_eqb x y && go l1' l2'
         | _, _ => false
         end) xs ys
  | _, _ => false
  end.

Fixpoint pvars (e : pexpr) : list var :=
  match e with
  | PVar x => [x]
  | PLit _ => []
  | PBin _ a b => pvars a ++ pvars b
  | PIf c t e' => pvars c ++ pvars t ++ pvars e'
  | PApp _ args => (fix go (l : list pexpr) := match l with [] => [] | x :: l' => pvars x ++ go l' end) args
  end.

(* ReplaceVariable(v, r, e) *)
Fixpoint psubst (v : var) (r : pexpr) (e : pexpr) : pexpr :=
  match e with
  | PVar x => if Nat.eqb x v then r else e
  | PLit _ => e
  | PBin o a b => PBin o (psubst v r a) (psubst v r b)
  | PIf c t e' => PIf (psubst v r c) (psubst v r t) (psubst v r e')
  | PApp f args => PApp f (map (psubst v r) args)
  end.

(* RuleStructure: select, vars_unification, constraints *)
Record rs := { sel : list (field * pexpr); unifs : list (pexpr * pexpr); cons : list pexpr }.

Definition subst_rs (v : var) (r : pexpr) (s : rs) : rs :=
  {| sel := map (fun fe => (fst fe, psubst v r (snd fe))) (sel s);
     unifs := map (fun u => (psubst v r (fst u), psubst v r (snd u))) (unifs s);
     cons := map (psubst v r) (cons s) |}.

Definition rs_vars (s : rs) : list var :=
  flat_map (fun fe => pvars (snd fe)) (sel s) ++
  flat_map (fun u => pvars (fst u) ++ pvars (snd u)) (unifs s) ++
  flat_map pvars (cons s).

Section Elim.
  Variable is_x : var -> bool.     (* compiler generated variable (name starts with x_) *)
  Variable E : list var.           (* ExtractedVariables(): variables with a table.column meaning *)
  Variable V : list var.           (* `variables` = InternalVariables() at the start of the loop *)

  Definition subsetv (a b : list var) : bool := forallb (fun x => memv x b) a.

  (* the condition of "Direct variable assignments" for u[k] := l, u[r] := r *)
  Definition fires (l r : pexpr) : option var :=
    if pexpr_eqb l r then None else
    match l with
    | PVar v =>
        if memv v V && negb (memv v (pvars r)) && (subsetv (pvars r) E || negb (is_x v))
        then Some v else None
    | _ => None
    end.

  (* one unification, both directions, the second one on the already substituted structure *)
  Definition visit (idx : nat) (s : rs) : rs * bool :=
    match nth_error (unifs s) idx with
    | None => (s, false)
    | Some (l, r) =>
        let '(s1, c1) := match fires l r with Some v => (subst_rs v r s, true) | None => (s, false) end in
        match nth_error (unifs s1) idx with
        | None => (s1, c1)
        | Some (l1, r1) =>
            match fires r1 l1 with
            | Some v => (subst_rs v l1 s1, true)
            | None => (s1, c1)
            end
        end
    end.

  (* for u in self.vars_unification *)
  Fixpoint pass (n idx : nat) (s : rs) (changed : bool) : rs * bool :=
    match n with
    | O => (s, changed)
    | S n' => let '(s', c) := visit idx s in pass n' (S idx) s' (changed || c)
    end.

  Definition drop_trivial (s : rs) : rs :=
    {| sel := sel s; unifs := filter (fun u => negb (pexpr_eqb (fst u) (snd u))) (unifs s); cons := cons s |}.

  (* while True: ... if done: break *)
  Fixpoint rounds (fuel : nat) (s : rs) : option rs :=
    match fuel with
    | O => None
    | S fuel' =>
        let s0 := drop_trivial s in
        let '(s1, changed) := pass (length (unifs s0)) 0 s0 false in
        if changed then rounds fuel' s1 else Some s1
    end.
End Elim.

Definition internal_vars (E : list var) (s : rs) : list var :=
  filter (fun x => negb (memv x E)) (rs_vars s).

(* ElliminateInternalVariables(assert_full_ellimination=True); UnificationsToConstraints().
   None = out of fuel (excluded by the theorems), Some (inl vs) = RuleCompileException (variables vs
   could not be eliminated), Some (inr s) = the final structure. *)
Definition eliminate (is_x : var -> bool) (E : list var) (s : rs) : option (list var + rs) :=
  let V := internal_vars E s in
  match rounds is_x E V (S (S (length V))) s with
  | None => None
  | Some s1 =>
      match internal_vars E s1 with
      | [] =>
          Some (inr {| sel := sel s1; unifs := [];
                       cons := cons s1 ++
                               map (fun u => PBin OEq (fst u) (snd u))
                                   (filter (fun u => negb (pexpr_eqb (fst u) (snd u))) (unifs s1)) |})
      | vs => Some (inl vs)
      end
  end.

(* ---------- semantics (Spec): total valuations; type errors evaluate to null ---------- *)
Section Sem.
  Variable app : nat -> list val -> val.     (* meaning of the uninterpreted built-ins *)

  Fixpoint peval (sg : var -> val) (e : pexpr) : val :=
    match e with
    | PVar x => sg x
    | PLit v => v
    | PBin o a b => match eval_bin o (peval sg a) (peval sg b) with Ok v => v | Fail _ => VNull end
    | PIf c t e' => if truthy (peval sg c) then peval sg t else peval sg e'
    | PApp f args => app f (map (peval sg) args)
    end.

  (* a valuation solves the structure: both sides of every unification agree, every constraint holds *)
  Definition solves (sg : var -> val) (s : rs) : Prop :=
    (forall l r, In (l, r) (unifs s) -> peval sg l = peval sg r) /\
    (forall c, In c (cons s) -> truthy (peval sg c) = true).

  Definition output (sg : var -> val) (s : rs) : list (field * val) :=
    map (fun fe => (fst fe, peval sg (snd fe))) (sel s).
End Sem.

(* comparison helpers for the harness *)
Fixpoint list_pexpr_eqb (a b : list pexpr) : bool :=
  match a, b with
  | [], [] => true
  | x :: a', y :: b' => pexpr_eqb x y && list_pexpr_eqb a' b'
  | _, _ => false
  end.

Definition rs_eqb (a b : rs) : bool :=
  list_eqb (fun x y => Nat.eqb (fst x) (fst y) && pexpr_eqb (snd x) (snd y)) (sel a) (sel b) &&
  list_eqb (fun x y => pexpr_eqb (fst x) (fst y) && pexpr_eqb (snd x) (snd y)) (unifs a) (unifs b) &&
  list_pexpr_eqb (cons a) (cons b).

(* 0: same final structure; 1: both reject; 2: differ; 3: out of fuel *)
Definition judge_elim (is_x : var -> bool) (E : list var) (s0 : rs) (real : option rs) : nat :=
  match eliminate is_x E s0, real with
  | None, _ => 3
  | Some (inl _), None => 1
  | Some (inr s1), Some s2 => if rs_eqb s1 s2 then 0 else 2
  | _, _ => 2
  end.
