(* Correctness of one injection step (Core/Inject.v, model of universe.RunInjections + InjectStructure):
   over every row choice, the injected structure emits exactly the rows the caller's structure emits when
   the replaced table holds a row the callee's structure emits.  Since SQL emits one row per row choice of
   the FROM product, this is the bag equality "reading a predicate through its table = reading its body in
   place" that makes injection invisible in the result. *)
From Coq Require Import List ZArith Bool Arith Lia.
Import ListNotations.
From LV Require Import Core.Syntax Core.Eval Core.Elim Core.ElimProofs Core.Extract Core.ExtractProofs Core.Inject.

Section Correct.
Variable app : nat -> list val -> val.
Notation peval := (Elim.peval app).
Notation solves := (Elim.solves app).
Notation output := (Elim.output app).

Lemma solves_agree sg sg' s : (forall x, In x (rs_vars s) -> sg x = sg' x) -> solves sg s -> solves sg' s.
Proof.
  intros A [H1 H2]. split.
  - intros l r Hin.
    rewrite <- (peval_ext app sg sg' l), <- (peval_ext app sg sg' r).
    + apply H1, Hin.
    + intros x Hx. apply A. eapply in_rs_vars_unif; eauto.
    + intros x Hx. apply A. eapply in_rs_vars_unif; eauto.
  - intros c Hin. rewrite <- (peval_ext app sg sg' c); [apply H2, Hin|].
    intros x Hx. apply A. eapply in_rs_vars_cons; eauto.
Qed.

Lemma lookup_output tau s f :
  lookup_field f (output tau s) = option_map (peval tau) (lookup_field f (sel s)).
Proof.
  unfold Elim.output. induction (sel s) as [|[g e] l IH]; simpl; [reflexivity|].
  destruct (Nat.eqb f g); [reflexivity | exact IH].
Qed.

Lemma lookup_field_In {A} f (l : list (field * A)) v : lookup_field f l = Some v -> In (f, v) l.
Proof.
  induction l as [|[g w] l IH]; simpl; [discriminate|]. destruct (Nat.eqb f g) eqn:E.
  - intros H. inversion H. subst. apply Nat.eqb_eq in E. subst. left. reflexivity.
  - intros H. right. apply IH, H.
Qed.

Lemma nth_set_nth_same {A} (l : list A) n a : n < length l -> nth_error (set_nth n a l) n = Some a.
Proof.
  revert n. induction l as [|b l IH]; intros [|n] H; simpl in *; try lia; [reflexivity|]. apply IH. lia.
Qed.

Lemma nth_set_nth_other {A} (l : list A) n m a : n <> m -> nth_error (set_nth n a l) m = nth_error l m.
Proof.
  revert n m. induction l as [|b l IH]; intros [|n] [|m] H; simpl; try reflexivity; try congruence.
  apply IH. congruence.
Qed.

(* the links: every column the caller read from the replaced table equals the callee's select expression *)
Lemma links_spec sl : forall mine ls, links sl mine = Some ls ->
  (forall x t f, In (x, (t, f)) mine -> exists e, lookup_field f sl = Some e /\ In (PVar x, e) ls) /\
  (forall l r, In (l, r) ls -> exists x t f, In (x, (t, f)) mine /\ l = PVar x /\ lookup_field f sl = Some r).
Proof.
  induction mine as [|[x [t f]] mine IH]; simpl; intros ls H.
  - inversion H. subst. split; [intros ? ? ? [] | intros ? ? []].
  - destruct (lookup_field f sl) as [e|] eqn:El; [|discriminate].
    destruct (links sl mine) as [ls'|] eqn:E2; [|discriminate]. inversion H. subst. clear H.
    destruct (IH ls' eq_refl) as [F B]. split.
    + intros x0 t0 f0 [Hin|Hin].
      * inversion Hin. subst. exists e. split; [exact El | left; reflexivity].
      * destruct (F _ _ _ Hin) as [e0 [H1 H2]]. exists e0. split; [exact H1 | right; exact H2].
    + intros l r [Hin|Hin].
      * inversion Hin. subst. exists x, t, f. split; [left; reflexivity | split; [reflexivity | exact El]].
      * destruct (B _ _ Hin) as [x0 [t0 [f0 [H1 [H2 H3]]]]]. exists x0, t0, f0. split; [right; exact H1 | auto].
Qed.

Lemma reads_true tid x t f : reads tid (x, (t, f)) = true <-> t = tid.
Proof. unfold reads. simpl. apply Nat.eqb_eq. Qed.

Section Step.
Variable is_x : var -> bool.
Variables (st st' : ist) (tid : nat) (cr : crule) (s1 : rs).
Let e := extract_at cr (i_nv st) (i_nt st).
Hypothesis Hpre : pre_eliminate is_x (map fst (x_cols e)) (x_rs e) = Done s1.
Hypothesis Hinj : inject_one is_x st tid cr = Done st'.

Lemma inject_one_parts :
  exists ls, links (sel s1) (filter (reads tid) (i_cols st)) = Some ls /\
    i_rs st' = {| sel := sel (i_rs st); unifs := unifs (i_rs st) ++ unifs s1 ++ ls; cons := cons (i_rs st) ++ cons s1 |} /\
    i_cols st' = filter (fun c => negb (reads tid c)) (i_cols st) ++ x_cols e.
Proof.
  unfold inject_one in Hinj. fold e in Hinj. rewrite Hpre in Hinj.
  destruct (links (sel s1) (filter (reads tid) (i_cols st))) as [ls|] eqn:El; [|discriminate].
  inversion Hinj. subst st'. exists ls. auto.
Qed.

(* FORWARD: a solution of the injected structure over the row choice rho is a solution of the callee over
   rho and of the caller over rho with the callee's output row in the place of the replaced table. *)
Theorem inject_forward tau rho :
  tid < length rho ->
  cells tau (i_cols st') rho -> solves tau (i_rs st') ->
  cells tau (x_cols e) rho /\ solves tau s1 /\
  cells tau (i_cols st) (set_nth tid (output tau s1) rho) /\ solves tau (i_rs st) /\
  output tau (i_rs st') = output tau (i_rs st).
Proof.
  intros Hlen Hc Hs. destruct inject_one_parts as [ls [El [Ers Ecols]]].
  destruct (links_spec _ _ _ El) as [LF _].
  rewrite Ers in Hs. destruct Hs as [Hu Hco]. cbn [unifs cons] in Hu, Hco.
  rewrite Ecols in Hc.
  assert (C2 : cells tau (x_cols e) rho).
  { intros x t f Hin. apply Hc. apply in_or_app. right. exact Hin. }
  assert (S1 : solves tau s1).
  { split.
    - intros l r Hin. apply Hu. apply in_or_app. right. apply in_or_app. left. exact Hin.
    - intros c Hin. apply Hco. apply in_or_app. right. exact Hin. }
  split; [exact C2|]. split; [exact S1|]. split; [|split].
  - intros x t f Hin. destruct (Nat.eq_dec t tid) as [->|Hne].
    + exists (output tau s1). split; [apply nth_set_nth_same, Hlen|].
      destruct (LF x tid f) as [ex [Hl Hin2]].
      { apply filter_In. split; [exact Hin | apply reads_true; reflexivity]. }
      rewrite lookup_output, Hl. simpl. f_equal. symmetry.
      apply (Hu (PVar x) ex). apply in_or_app. right. apply in_or_app. right. exact Hin2.
    + rewrite nth_set_nth_other by congruence. apply Hc. apply in_or_app. left.
      apply filter_In. split; [exact Hin|]. apply negb_true_iff.
      destruct (reads tid (x, (t, f))) eqn:Er; [apply reads_true in Er; congruence | reflexivity].
  - split.
    + intros l r Hin. apply Hu. apply in_or_app. left. exact Hin.
    + intros c Hin. apply Hco. apply in_or_app. left. exact Hin.
  - rewrite Ers. reflexivity.
Qed.

(* the variables of the callee are not variables of the caller *)
Definition apart : Prop :=
  forall x, In x (rs_vars s1) \/ In x (map fst (x_cols e)) ->
  ~ In x (rs_vars (i_rs st)) /\ ~ In x (map fst (i_cols st)).

(* BACKWARD: a solution tau1 of the caller over rho with the row r in the place of the replaced table and a
   solution tau2 of the callee over rho with output r combine into one solution of the injected structure
   with the caller's output. *)
Theorem inject_backward tau1 tau2 rho r :
  apart ->
  cells tau1 (i_cols st) (set_nth tid r rho) -> solves tau1 (i_rs st) ->
  cells tau2 (x_cols e) rho -> solves tau2 s1 -> output tau2 s1 = r ->
  exists tau, cells tau (i_cols st') rho /\ solves tau (i_rs st') /\
              output tau (i_rs st') = output tau1 (i_rs st).
Proof.
  intros Hap C1 S1 C2 S2 Hr. destruct inject_one_parts as [ls [El [Ers Ecols]]].
  destruct (links_spec _ _ _ El) as [_ LB].
  set (callee := rs_vars s1 ++ map fst (x_cols e)).
  set (tau := fun x => if memv x callee then tau2 x else tau1 x).
  assert (A2 : forall x, In x callee -> tau x = tau2 x).
  { intros x Hx. unfold tau. apply memv_In in Hx. rewrite Hx. reflexivity. }
  assert (A1 : forall x, In x (rs_vars (i_rs st)) \/ In x (map fst (i_cols st)) -> tau x = tau1 x).
  { intros x Hx. unfold tau. destruct (memv x callee) eqn:Em; [|reflexivity].
    apply memv_In in Em. unfold callee in Em. apply in_app_or in Em. destruct (Hap x Em) as [N1 N2].
    destruct Hx; contradiction. }
  assert (St1 : solves tau (i_rs st)).
  { apply (solves_agree tau1); [|exact S1]. intros x Hx. symmetry. apply A1. left. exact Hx. }
  assert (St2 : solves tau s1).
  { apply (solves_agree tau2); [|exact S2]. intros x Hx. symmetry. apply A2. apply in_or_app. left. exact Hx. }
  exists tau. split; [|split].
  - rewrite Ecols. intros x t f Hin. apply in_app_or in Hin as [Hin|Hin].
    + apply filter_In in Hin as [Hin Hnr]. apply negb_true_iff in Hnr.
      assert (Hne : t <> tid) by (intros ->; rewrite (proj2 (reads_true tid x tid f) eq_refl) in Hnr; discriminate).
      destruct (C1 x t f Hin) as [rw [Hn Hl]]. rewrite nth_set_nth_other in Hn by congruence.
      exists rw. split; [exact Hn|]. rewrite Hl. f_equal. symmetry. apply A1. right.
      change x with (fst (x, (t, f))). apply in_map, Hin.
    + destruct (C2 x t f Hin) as [rw [Hn Hl]]. exists rw. split; [exact Hn|]. rewrite Hl. f_equal. symmetry.
      apply A2. apply in_or_app. right. change x with (fst (x, (t, f))). apply in_map, Hin.
  - rewrite Ers. split; cbn [unifs cons].
    + intros l r0 Hin. apply in_app_or in Hin as [Hin|Hin]; [apply St1, Hin|].
      apply in_app_or in Hin as [Hin|Hin]; [apply St2, Hin|].
      destruct (LB _ _ Hin) as [x [t [f [Hm [-> Hl]]]]]. apply filter_In in Hm as [Hm Hrd].
      apply reads_true in Hrd. subst t.
      destruct (C1 x tid f Hm) as [rw [Hn Hlk]].
      assert (Hlen : tid < length rho).
      { destruct (Nat.lt_ge_cases tid (length rho)) as [L|G]; [exact L|]. exfalso.
        assert (length (set_nth tid r rho) = length rho).
        { clear. revert tid. induction rho as [|b l IH]; intros [|n]; simpl; auto. }
        assert (nth_error (set_nth tid r rho) tid = None) by (apply nth_error_None; lia). congruence. }
      rewrite nth_set_nth_same in Hn by exact Hlen. inversion Hn. subst rw.
      rewrite <- Hr, lookup_output, Hl in Hlk. simpl in Hlk. inversion Hlk as [Hv].
      cbn [Elim.peval]. rewrite A1 by (right; change x with (fst (x, (tid, f))); apply in_map, Hm).
      rewrite <- Hv. apply peval_ext. intros y Hy. symmetry. apply A2. apply in_or_app. left.
      eapply in_rs_vars_sel; [apply lookup_field_In, Hl | exact Hy].
    + intros c Hin. apply in_app_or in Hin as [Hin|Hin]; [apply St1, Hin | apply St2, Hin].
  - rewrite Ers. unfold Elim.output. cbn [sel]. apply map_ext_in. intros [f ex] Hin. simpl. f_equal.
    apply peval_ext. intros y Hy. apply A1. left. eapply in_rs_vars_sel; eauto.
Qed.

(* INJECTION IS INVISIBLE: over every row choice, the injected structure emits the row out iff the callee
   emits some row r and the caller, reading r from the replaced table, emits out. *)
Theorem inject_denotes rho out :
  apart -> tid < length rho ->
  (denotes app (i_rs st') (i_cols st') rho out <->
   exists r, denotes app s1 (x_cols e) rho r /\ denotes app (i_rs st) (i_cols st) (set_nth tid r rho) out).
Proof.
  intros Hap Hlen. split.
  - intros [tau [Hc [Hs Ho]]]. destruct (inject_forward tau rho Hlen Hc Hs) as [C2 [S2 [C1 [S1 Eo]]]].
    exists (output tau s1). split.
    + exists tau. auto.
    + exists tau. split; [exact C1|]. split; [exact S1|]. rewrite <- Eo. exact Ho.
  - intros [r [[tau2 [C2 [S2 O2]]] [tau1 [C1 [S1 O1]]]]].
    destruct (inject_backward tau1 tau2 rho r Hap C1 S1 C2 S2 O2) as [tau [Hc [Hs Ho]]].
    exists tau. split; [exact Hc|]. split; [exact Hs|]. rewrite Ho. exact O1.
Qed.

(* the decidable side conditions the harness evaluates per instance imply `apart` *)
Lemma extract_at_keys : exists n1, i_nv st <= n1 /\ map fst (x_cols e) = map xvar (seq n1 (x_next e - n1)).
Proof.
  unfold e, extract_at. destruct (extract_head (k_head cr) (i_nv st)) as [uh n1] eqn:E1.
  destruct (extract_body (k_body cr) (i_nt st) n1) as [[[[ub co] cm] ts] n2] eqn:E2. cbn [x_cols x_next].
  destruct (extract_body_keys _ _ _ _ _ _ _ _ E2) as [K _]. exists n1. split; [|exact K].
  clear - E1. revert uh E1. generalize (i_nv st). induction (k_head cr) as [|[f ex] h IH]; simpl; intros n uh E1.
  - inversion E1. lia.
  - destruct (is_pvar ex).
    + destruct (extract_head h (S n)) as [us n'] eqn:E. inversion E1. subst. specialize (IH _ _ E). lia.
    + eapply IH, E1.
Qed.

Theorem side_conditions_apart :
  callee_closed is_x st cr = true -> caller_below st = true -> apart.
Proof.
  unfold callee_closed, caller_below. fold e. rewrite Hpre. intros Hcl Hb.
  destruct (internal_vars (map fst (x_cols e)) s1) eqn:Ei; [|discriminate].
  apply andb_true_iff in Hb as [B1 B2]. rewrite forallb_forall in B1, B2.
  destruct extract_at_keys as [n1 [Hle K]].
  assert (Hge : forall x, In x (map fst (x_cols e)) -> xvar (i_nv st) <= x).
  { intros x Hx. rewrite K in Hx. apply in_map_iff in Hx as [k [<- Hk]]. apply in_seq in Hk. unfold xvar. lia. }
  intros x Hx.
  assert (Hin : In x (map fst (x_cols e))).
  { destruct Hx as [Hx|Hx]; [eapply no_internal_all_extracted; eauto | exact Hx]. }
  specialize (Hge x Hin). split.
  - intros H1. apply B1 in H1. unfold below in H1. apply Nat.ltb_lt in H1. lia.
  - intros H2. apply in_map_iff in H2 as [c [<- Hc]]. apply B2 in Hc. unfold below in Hc.
    apply Nat.ltb_lt in Hc. lia.
Qed.
End Step.

(* ---------- the whole of RunInjections (all rounds) ---------- *)
Lemma length_set_nth {A} n (a : A) l : length (set_nth n a l) = length l.
Proof. revert n. induction l as [|b l IH]; intros [|n]; simpl; auto. Qed.

Lemma inject_one_inv is_x st tid cr st' : inject_one is_x st tid cr = Done st' ->
  exists s1, pre_eliminate is_x (map fst (x_cols (extract_at cr (i_nv st) (i_nt st)))) (x_rs (extract_at cr (i_nv st) (i_nt st))) = Done s1.
Proof.
  unfold inject_one. destruct (pre_eliminate _ _ _) as [s1| |]; try discriminate. intros _. exists s1. reflexivity.
Qed.

(* every table number the run may replace is a position of the row choice *)
Definition covers (rho : choice) (ts : list (nat * pred)) : Prop := forall t p, In (t, p) ts -> t < length rho.

Lemma round_forward is_x D tau : forall snapshot st changed st' changed' rho,
  inject_round is_x D snapshot st changed = Done (st', changed') -> covers rho snapshot ->
  cells tau (i_cols st') rho -> solves tau (i_rs st') ->
  exists rho0, length rho0 = length rho /\ cells tau (i_cols st) rho0 /\ solves tau (i_rs st) /\
               output tau (i_rs st') = output tau (i_rs st).
Proof.
  induction snapshot as [|[tid p] rest IH]; intros st changed st' changed' rho H Hcov Hc Hs; simpl in H.
  - inversion H. subst. exists rho. auto.
  - assert (Hcov' : covers rho rest) by (intros t q Hin; apply (Hcov t q); right; exact Hin).
    destruct (def_of D p) as [cr|]; [|eapply IH; eauto].
    destruct (inject_one is_x st tid cr) as [st1| |] eqn:E1; try discriminate.
    destruct (IH st1 true st' changed' rho H Hcov' Hc Hs) as [rho1 [L1 [C1 [S1 O1]]]].
    destruct (inject_one_inv _ _ _ _ _ E1) as [s1 Hpre].
    assert (Hlt : tid < length rho1) by (rewrite L1; apply (Hcov tid p); left; reflexivity).
    destruct (inject_forward is_x st st1 tid cr s1 Hpre E1 tau rho1 Hlt C1 S1) as [_ [_ [C0 [S0 O0]]]].
    exists (set_nth tid (output tau s1) rho1). split; [rewrite length_set_nth; exact L1|].
    split; [exact C0|]. split; [exact S0|]. rewrite O1. exact O0.
Qed.

(* table numbers stay below the allocator mark, which only grows *)
Definition tabs_below (st : ist) : Prop := forall t p, In (t, p) (i_tabs st) -> t < i_nt st.

Lemma number_from_range ts : forall t0 t p, In (t, p) (number_from t0 ts) -> t0 <= t < t0 + length ts.
Proof.
  induction ts as [|q ts IH]; intros t0 t p H; simpl in *; [contradiction|].
  destruct H as [H|H]; [inversion H; subst; lia | apply IH in H; lia].
Qed.

Lemma replace_tab_In tid new ts t p : In (t, p) (replace_tab tid new ts) -> In (t, p) new \/ In (t, p) ts.
Proof.
  induction ts as [|[t' p'] ts IH]; simpl; [tauto|]. destruct (Nat.eqb t' tid).
  - intros H. apply in_app_or in H as [H|H]; [left; exact H | right; right; exact H].
  - intros [H|H]; [right; left; exact H | destruct (IH H); [left | right; right]; assumption].
Qed.

Lemma inject_one_marks is_x st tid cr st' : inject_one is_x st tid cr = Done st' ->
  i_nt st <= i_nt st' /\ (tabs_below st -> tabs_below st').
Proof.
  unfold inject_one. destruct (pre_eliminate _ _ _) as [s1| |]; try discriminate.
  destruct (links _ _) as [ls|]; try discriminate. intros H. inversion H. subst st'. clear H. cbn [i_nt i_tabs].
  split; [lia|]. intros Hb t p Hin. cbn [i_nt i_tabs] in *. apply replace_tab_In in Hin as [Hin|Hin].
  - apply number_from_range in Hin. lia.
  - apply Hb in Hin. lia.
Qed.

Lemma round_marks is_x D : forall snapshot st changed st' changed',
  inject_round is_x D snapshot st changed = Done (st', changed') ->
  i_nt st <= i_nt st' /\ (tabs_below st -> tabs_below st').
Proof.
  induction snapshot as [|[tid p] rest IH]; intros st changed st' changed' H; simpl in H.
  - inversion H. subst. split; [lia | auto].
  - destruct (def_of D p) as [cr|]; [|eapply IH; eauto].
    destruct (inject_one is_x st tid cr) as [st1| |] eqn:E1; try discriminate.
    destruct (inject_one_marks _ _ _ _ _ E1) as [M1 B1]. destruct (IH _ _ _ _ H) as [M2 B2]. split; [lia | auto].
Qed.

Lemma run_marks is_x D : forall fuel st st', run_injections is_x D fuel st = Done st' ->
  i_nt st <= i_nt st' /\ (tabs_below st -> tabs_below st').
Proof.
  induction fuel as [|fuel IH]; intros st st' H; simpl in H; [discriminate|].
  destruct (inject_round is_x D (i_tabs st) st false) as [[st1 ch]| |] eqn:Er; try discriminate.
  destruct (round_marks _ _ _ _ _ _ _ Er) as [M1 B1]. destruct ch.
  - destruct (IH _ _ H) as [M2 B2]. split; [lia | auto].
  - inversion H. subst. split; [lia | auto].
Qed.

(* RUNINJECTIONS IS SOUND: a valuation that solves the structure RunInjections leaves, over a row choice rho
   that has a position for every allocated table number, solves the caller's ORIGINAL structure over a row
   choice of the same length (the replaced tables hold the rows their callees emit under the same valuation),
   with the same head row. *)
Theorem run_injections_sound is_x D tau : forall fuel st st' rho,
  run_injections is_x D fuel st = Done st' ->
  tabs_below st -> i_nt st' <= length rho ->
  cells tau (i_cols st') rho -> solves tau (i_rs st') ->
  exists rho0, length rho0 = length rho /\ cells tau (i_cols st) rho0 /\ solves tau (i_rs st) /\
               output tau (i_rs st') = output tau (i_rs st).
Proof.
  induction fuel as [|fuel IH]; intros st st' rho H Hb Hlen Hc Hs; simpl in H; [discriminate|].
  destruct (inject_round is_x D (i_tabs st) st false) as [[st1 ch]| |] eqn:Er; try discriminate.
  destruct (round_marks _ _ _ _ _ _ _ Er) as [M1 B1].
  destruct ch.
  - destruct (run_marks _ _ _ _ _ H) as [M2 _].
    destruct (IH st1 st' rho H (B1 Hb) Hlen Hc Hs) as [rho1 [L1 [C1 [S1 O1]]]].
    assert (Hcov1 : covers rho1 (i_tabs st)) by (intros t p Hin; rewrite L1; apply Hb in Hin; lia).
    destruct (round_forward is_x D tau _ _ _ _ _ rho1 Er Hcov1 C1 S1) as [rho0 [L0 [C0 [S0 O0]]]].
    exists rho0. split; [congruence|]. split; [exact C0|]. split; [exact S0|]. congruence.
  - inversion H. subst st'.
    assert (Hcov : covers rho (i_tabs st)) by (intros t p Hin; apply Hb in Hin; lia).
    eapply round_forward; eauto.
Qed.

Lemma ist_of_rule_below r : tabs_below (ist_of_rule r).
Proof.
  unfold tabs_below, ist_of_rule. cbn [i_tabs i_nt]. intros t p Hin. apply number_from_range in Hin. lia.
Qed.

(* ---------- down to the emitted query: elimination after injection ---------- *)
(* the FROM/WHERE/SELECT reading of the eliminated structure emits only rows the structure denotes *)
Lemma sql_row_sound is_x s cm final rho out :
  NoDup (map fst cm) -> wf_choice cm rho ->
  eliminate is_x (map fst cm) s = Some (inr final) ->
  sql_row app cm final rho = Some out -> denotes app s cm rho out.
Proof.
  intros ND Hwf He Hs. unfold sql_row in Hs.
  destruct (forallb _ (cons final)) eqn:Ef; [|discriminate]. inversion Hs. subst out. clear Hs.
  set (en := env_of cm rho) in *.
  pose proof (forallb_cons_solves app en final (eliminate_no_unifs _ _ _ _ He) Ef) as Hsol.
  destruct (eliminate_row_choice app is_x _ _ _ He en) as [B _].
  destruct (B Hsol) as [tau [Agree [Htau Hout]]].
  exists tau. split; [|split; [exact Htau | exact Hout]].
  intros x t f Hin. destruct (Hwf x t f Hin) as [rw [v [Hr Hv]]]. exists rw. split; [exact Hr|].
  rewrite Hv. f_equal.
  assert (Ex : tau x = en x) by (apply Agree; change x with (fst (x, (t, f))); apply in_map, Hin).
  rewrite Ex. unfold en, env_of. rewrite (lookup_col_In x (t, f) cm ND Hin), Hr, Hv. reflexivity.
Qed.

(* THE QUERY EMITTED AFTER AN INJECTION: every row it produces for a row choice is a row the caller's
   structure produces when the replaced table holds a row the callee's structure produces. *)
Theorem injected_query_sound is_x st st' tid cr s1 final rho out :
  pre_eliminate is_x (map fst (x_cols (extract_at cr (i_nv st) (i_nt st)))) (x_rs (extract_at cr (i_nv st) (i_nt st))) = Done s1 ->
  inject_one is_x st tid cr = Done st' ->
  callee_closed is_x st cr = true -> caller_below st = true -> tid < length rho ->
  NoDup (map fst (i_cols st')) -> wf_choice (i_cols st') rho ->
  eliminate is_x (map fst (i_cols st')) (i_rs st') = Some (inr final) ->
  sql_row app (i_cols st') final rho = Some out ->
  exists r, denotes app s1 (x_cols (extract_at cr (i_nv st) (i_nt st))) rho r /\
            denotes app (i_rs st) (i_cols st) (set_nth tid r rho) out.
Proof.
  intros Hpre Hinj Hcl Hb Hlen ND Hwf He Hs.
  apply (inject_denotes is_x st st' tid cr s1 Hpre Hinj rho out); [|exact Hlen|].
  - eapply side_conditions_apart; eassumption.
  - eapply sql_row_sound; eassumption.
Qed.
End Correct.
