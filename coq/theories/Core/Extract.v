(* Model of compiler/rule_translate.py ExtractRuleStructure on the conjunctive fragment (no combines, no
   `in`, no record patterns, no calls of user predicates inside expressions), with the deterministic
   variable allocator (x_0, x_1, ...), and the FROM / WHERE / SELECT reading of the resulting structure.
   Tied to the code by props/c01.py (the real ExtractRuleStructure output must equal `extract`).
   Together with Core/Elim.v this is the compile path  rule -> structure -> eliminated structure. *)
From Coq Require Import List ZArith Bool Arith.
Import ListNotations.
From LV Require Import Core.Syntax Core.Eval Core.Elim.

(* a conjunct of the fragment *)
Inductive cconj :=
| KAtom (p : pred) (args : list (field * pexpr))     (* a table-producing predicate *)
| KUnify (l r : pexpr)                                (* l == r *)
| KCond (c : pexpr).                                  (* <, <=, ..., &&, ||, !, IsNull, ... as a call *)

Record crule := { k_head : list (field * pexpr); k_body : list cconj }.

Definition XBASE := 1000%nat.              (* x_n is variable XBASE + n; user variables are below XBASE *)
Definition xvar (n : nat) : var := (XBASE + n)%nat.
Definition is_pvar (e : pexpr) : bool := match e with PVar _ => true | _ => false end.

(* where a column variable reads from: (index of the atom in the FROM list, column) *)
Definition colmap := list (var * (nat * field)).

Record ext := { x_rs : rs; x_cols : colmap; x_tables : list pred; x_next : nat }.

(* head: a select item that is a bare variable gets an "extract" variable *)
Fixpoint extract_head (h : list (field * pexpr)) (n : nat) : list (pexpr * pexpr) * nat :=
  match h with
  | [] => ([], n)
  | (_, e) :: h' =>
      if is_pvar e then let '(us, n') := extract_head h' (S n) in ((e, PVar (xvar n)) :: us, n')
      else extract_head h' n
  end.

(* the arguments of one atom: a fresh variable per argument, unified with the argument expression *)
Fixpoint extract_args (ti : nat) (args : list (field * pexpr)) (n : nat)
    : list (pexpr * pexpr) * colmap * nat :=
  match args with
  | [] => ([], [], n)
  | (f, e) :: args' =>
      let '(us, cm, n') := extract_args ti args' (S n) in
      ((PVar (xvar n), e) :: us, (xvar n, (ti, f)) :: cm, n')
  end.

Fixpoint extract_body (cs : list cconj) (ti n : nat)
    : list (pexpr * pexpr) * list pexpr * colmap * list pred * nat :=
  match cs with
  | [] => ([], [], [], [], n)
  | KAtom p args :: cs' =>
      let '(us1, cm1, n1) := extract_args ti args n in
      let '(us, co, cm, ts, n') := extract_body cs' (S ti) n1 in
      (us1 ++ us, co, cm1 ++ cm, p :: ts, n')
  | KUnify l r :: cs' =>
      let '(us, co, cm, ts, n') := extract_body cs' ti n in
      if is_pvar l || is_pvar r then ((l, r) :: us, co, cm, ts, n')
      else if pexpr_eqb l r then (us, co, cm, ts, n')
      else (us, PBin OEq l r :: co, cm, ts, n')
  | KCond c :: cs' =>
      let '(us, co, cm, ts, n') := extract_body cs' ti n in (us, c :: co, cm, ts, n')
  end.

Definition extract (r : crule) : ext :=
  let '(uh, n1) := extract_head (k_head r) 0 in
  let '(ub, co, cm, ts, n2) := extract_body (k_body r) 0 n1 in
  {| x_rs := {| sel := k_head r; unifs := uh ++ ub; cons := co |};
     x_cols := cm; x_tables := ts; x_next := n2 |}.

(* ---------- Spec: what a conjunctive rule means, row choice by row choice ---------- *)
Section Spec.
  Variable app : nat -> list val -> val.

  (* rows chosen for the atoms, in order *)
  Definition choice := list row.

  Fixpoint atoms_of (cs : list cconj) : list (pred * list (field * pexpr)) :=
    match cs with
    | [] => []
    | KAtom p args :: cs' => (p, args) :: atoms_of cs'
    | _ :: cs' => atoms_of cs'
    end.

  (* sg (values of the user variables) and the chosen rows form a derivation of the body *)
  Definition conj_valid (sg : var -> val) (c : cconj) : Prop :=
    match c with
    | KAtom _ _ => True
    | KUnify l r =>
        if is_pvar l || is_pvar r then peval app sg l = peval app sg r      (* assignment: null allowed *)
        else sql_eq (peval app sg l) (peval app sg r) = true \/ pexpr_eqb l r = true
    | KCond c' => truthy (peval app sg c') = true
    end.

  Definition atom_valid (sg : var -> val) (a : pred * list (field * pexpr)) (rw : row) : Prop :=
    forall f e, In (f, e) (snd a) -> lookup_field f rw = Some (peval app sg e).

  Definition derivation (sg : var -> val) (rho : choice) (r : crule) : Prop :=
    Forall2 (atom_valid sg) (atoms_of (k_body r)) rho /\ Forall (conj_valid sg) (k_body r).

  Definition head_row (sg : var -> val) (r : crule) : list (field * val) :=
    map (fun fe => (fst fe, peval app sg (snd fe))) (k_head r).

  (* ---------- FROM / WHERE / SELECT reading of a structure ---------- *)
  (* the environment a row choice gives to the column variables *)
  Fixpoint lookup_col (x : var) (cm : colmap) : option (nat * field) :=
    match cm with [] => None | (y, tf) :: cm' => if Nat.eqb x y then Some tf else lookup_col x cm' end.

  Definition env_of (cm : colmap) (rho : choice) : var -> val :=
    fun x => match lookup_col x cm with
             | Some (ti, f) => match nth_error rho ti with
                               | Some rw => match lookup_field f rw with Some v => v | None => VNull end
                               | None => VNull end
             | None => VNull
             end.

  (* one row choice of the FROM product passes the WHERE of the final structure and produces the SELECT row *)
  Definition sql_row (cm : colmap) (final : rs) (rho : choice) : option (list (field * val)) :=
    let en := env_of cm rho in
    if forallb (fun c => truthy (peval app en c)) (cons final) then Some (output app en final) else None.
End Spec.

(* comparison helpers for the harness *)
Definition colmap_eqb (a b : colmap) : bool :=
  list_eqb (fun x y => Nat.eqb (fst x) (fst y) && Nat.eqb (fst (snd x)) (fst (snd y)) && Nat.eqb (snd (snd x)) (snd (snd y))) a b.

(* 0: the model's structure, column map and table list equal the real ones; 2: differ *)
Definition judge_extract (r : crule) (real : rs) (real_cols : colmap) (real_tables : list pred) : nat :=
  let e := extract r in
  if rs_eqb (x_rs e) real && colmap_eqb (x_cols e) real_cols && list_eqb Nat.eqb (x_tables e) real_tables then 0 else 2.
