(* Aggregation in the reference evaluator: null inputs are ignored, nothing aggregates to null,
   a distinct predicate has one row per key. *)
From Coq Require Import List ZArith Bool Arith Permutation Lia Sorted.
Import ListNotations.
From LV Require Import Core.Syntax Core.Eval.

Definition documented (op : aggop) : bool :=
  match op with ASum | AMin | AMax | ACount | AList | ASet => true | _ => false end.

Lemma filter_idem {A} (f : A -> bool) l : filter f (filter f l) = filter f l.
Proof.
  induction l as [|x l IH]; simpl; [reflexivity|].
  destruct (f x) eqn:E; simpl; rewrite ?E, IH; reflexivity.
Qed.

(* null inputs are ignored by every documented aggregate *)
Theorem aggregate_ignores_null op vals : documented op = true ->
  aggregate op vals = aggregate op (filter (fun v => negb (is_null v)) vals).
Proof.
  intros H. destruct op; try discriminate; unfold aggregate; rewrite filter_idem; reflexivity.
Qed.

Lemma filter_all_null vals : forallb is_null vals = true ->
  filter (fun v => negb (is_null v)) vals = [].
Proof.
  induction vals as [|v l IH]; simpl; [reflexivity|].
  intros H. apply andb_true_iff in H as [H1 H2]. rewrite H1. simpl. apply IH, H2.
Qed.

(* nothing (or only nulls) aggregates to null *)
Theorem aggregate_nothing_is_null op vals : documented op = true ->
  forallb is_null vals = true -> aggregate op vals = Ok VNull.
Proof.
  intros H Hn. destruct op; try discriminate; unfold aggregate; rewrite (filter_all_null _ Hn); reflexivity.
Qed.

(* Sum does not depend on the arrival order *)
Fixpoint all_int (l : list val) : bool :=
  match l with [] => true | VInt _ :: l' => all_int l' | _ => false end.

Fixpoint zsum (l : list val) : Z :=
  match l with VInt z :: l' => (z + zsum l')%Z | _ => 0%Z end.

Lemma fold_sum_ints l : forall acc, all_int l = true ->
  fold_left (fun a v => bind a (fun a' => eval_bin OAdd a' v)) l (Ok (VInt acc)) = Ok (VInt (acc + zsum l)).
Proof.
  induction l as [|v l IH]; cbn [fold_left zsum all_int]; intros acc H.
  - rewrite Z.add_0_r. reflexivity.
  - destruct v; try discriminate. cbn [eval_bin bind]. rewrite IH by exact H. cbn [zsum]. f_equal. f_equal. lia.
Qed.

Lemma all_int_perm l l' : Permutation l l' -> all_int l = all_int l'.
Proof.
  induction 1; simpl; try reflexivity.
  - destruct x; try reflexivity. assumption.
  - destruct x, y; reflexivity.
  - congruence.
Qed.

Lemma zsum_perm l l' : all_int l = true -> Permutation l l' -> zsum l = zsum l'.
Proof.
  intros H P. induction P; cbn [zsum all_int] in *; try reflexivity.
  - destruct x; try discriminate. rewrite IHP by exact H. reflexivity.
  - destruct y; try discriminate. destruct x; try discriminate. lia.
  - rewrite IHP1 by exact H. apply IHP2. rewrite <- (all_int_perm _ _ P1). exact H.
Qed.

Lemma filter_perm {A} (f : A -> bool) l l' : Permutation l l' -> Permutation (filter f l) (filter f l').
Proof.
  induction 1; simpl.
  - constructor.
  - destruct (f x); [constructor|]; assumption.
  - destruct (f x), (f y); try apply Permutation_refl. apply perm_swap.
  - eapply perm_trans; eassumption.
Qed.

Theorem sum_arrival_order vals vals' :
  all_int (filter (fun v => negb (is_null v)) vals) = true -> Permutation vals vals' ->
  aggregate ASum vals = aggregate ASum vals'.
Proof.
  intros H P. pose proof (filter_perm (fun v => negb (is_null v)) _ _ P) as Pf.
  unfold aggregate.
  set (a := filter (fun v => negb (is_null v)) vals) in *.
  set (b := filter (fun v => negb (is_null v)) vals') in *.
  assert (Hb : all_int b = true) by (rewrite <- (all_int_perm _ _ Pf); exact H).
  destruct a as [|x a'] eqn:Ea, b as [|y b'] eqn:Eb; try reflexivity.
  - apply Permutation_nil in Pf. discriminate.
  - apply Permutation_sym, Permutation_nil in Pf. discriminate.
  - rewrite <- Ea, <- Eb in *.
    change (fold_left (fun acc v => bind acc (fun a0 => eval_bin OAdd a0 v)) a (Ok (VInt 0)) =
            fold_left (fun acc v => bind acc (fun a0 => eval_bin OAdd a0 v)) b (Ok (VInt 0))).
    rewrite !fold_sum_ints by assumption. rewrite (zsum_perm a b H Pf). reflexivity.
Qed.

(* a distinct predicate: one row per key *)
Lemma mapM_ok_map {A B} (f : A -> res B) l r : mapM f l = Ok r ->
  Forall2 (fun a b => f a = Ok b) l r.
Proof.
  revert r. induction l as [|x l IH]; simpl; intros r H.
  - inversion H. constructor.
  - destruct (f x) eqn:E; simpl in H; [|discriminate].
    destruct (mapM f l) eqn:E2; simpl in H; [|discriminate]. inversion H. subst.
    constructor; [exact E | apply IH; reflexivity].
Qed.

Definition keys_of (keyf : list field) (pre : list row) : list (list val) :=
  fold_left (fun acc r =>
               let k := map (fun f => match lookup_field f r with Some v => v | None => VNull end) keyf in
               if existsb (fun k' => list_eqb val_eqb k k') acc then acc else acc ++ [k]) pre [].

Definition pairwise_distinct (ks : list (list val)) : Prop :=
  forall i j a b, nth_error ks i = Some a -> nth_error ks j = Some b -> i <> j ->
  list_eqb val_eqb a b = false.

Lemma list_eqb_val_sym a b : list_eqb val_eqb a b = list_eqb val_eqb b a.
Proof.
  assert (S : forall x y, val_eqb x y = val_eqb y x).
  { fix IH 1. intros x y. destruct x, y; simpl; try reflexivity.
    - apply Z.eqb_sym.
    - revert s0. induction s as [|c s IHs]; intros [|d s0]; simpl; try reflexivity.
      rewrite Nat.eqb_sym, IHs. reflexivity.
    - revert l0. induction l as [|u l IHl]; intros [|v l0]; simpl; try reflexivity.
      rewrite (IH u v), IHl. reflexivity.
    - revert fs0. induction fs as [|[f u] fs IHf]; intros [|[g v] fs0]; simpl; try reflexivity.
      rewrite Nat.eqb_sym, (IH u v), IHf. reflexivity. }
  revert b. induction a as [|x a IHa]; intros [|y b]; simpl; try reflexivity.
  rewrite S, IHa. reflexivity.
Qed.

Lemma keys_step_distinct acc k : pairwise_distinct acc ->
  pairwise_distinct (if existsb (fun k' => list_eqb val_eqb k k') acc then acc else acc ++ [k]).
Proof.
  intros H. destruct (existsb _ acc) eqn:E; [exact H|].
  assert (Hk : forall a, In a acc -> list_eqb val_eqb k a = false).
  { intros a Ha. destruct (list_eqb val_eqb k a) eqn:Ek; [|reflexivity].
    assert (existsb (fun k' => list_eqb val_eqb k k') acc = true) by (apply existsb_exists; eauto).
    congruence. }
  intros i j a b Hi Hj Hij.
  destruct (Nat.lt_ge_cases i (length acc)) as [Li|Li], (Nat.lt_ge_cases j (length acc)) as [Lj|Lj].
  - rewrite nth_error_app1 in Hi, Hj by assumption. eapply H; eauto.
  - rewrite nth_error_app1 in Hi by assumption. rewrite nth_error_app2 in Hj by assumption.
    destruct (j - length acc) as [|m] eqn:Em; simpl in Hj; [|destruct m; discriminate].
    inversion Hj. subst b. rewrite list_eqb_val_sym. apply Hk. eapply nth_error_In, Hi.
  - rewrite nth_error_app2 in Hi by assumption. rewrite nth_error_app1 in Hj by assumption.
    destruct (i - length acc) as [|m] eqn:Em; simpl in Hi; [|destruct m; discriminate].
    inversion Hi. subst a. apply Hk. eapply nth_error_In, Hj.
  - rewrite nth_error_app2 in Hi, Hj by assumption.
    destruct (i - length acc) as [|m] eqn:Em; simpl in Hi; [|destruct m; discriminate].
    destruct (j - length acc) as [|m'] eqn:Em'; simpl in Hj; [|destruct m'; discriminate].
    exfalso. lia.
Qed.

Theorem distinct_keys_once keyf pre : pairwise_distinct (keys_of keyf pre).
Proof.
  unfold keys_of.
  assert (G : forall acc, pairwise_distinct acc ->
    pairwise_distinct
      (fold_left (fun acc r =>
               let k := map (fun f => match lookup_field f r with Some v => v | None => VNull end) keyf in
               if existsb (fun k' => list_eqb val_eqb k k') acc then acc else acc ++ [k]) pre acc)).
  { induction pre as [|r pre IH]; simpl; intros acc H; [exact H|]. apply IH, keys_step_distinct, H. }
  apply G. intros i j a b Hi. destruct i; discriminate.
Qed.


(* Min and Max of integers: the result is the least (greatest) non-null input, whatever the arrival order *)
Definition ext_ok (want_lt : bool) (m x : Z) : Prop := if want_lt then (m <= x)%Z else (x <= m)%Z.

Definition pick_step (want_lt : bool) (acc : res val) (x : val) : res val :=
  bind acc (fun a =>
    match val_ltb x a with
    | Some lt => if Bool.eqb lt want_lt then (if val_eqb x a then Ok a else Ok x) else Ok a
    | None => Fail E_TYPE
    end).

Lemma pick_fold_int want_lt : forall l acc, all_int l = true ->
  exists m, fold_left (pick_step want_lt) l (Ok (VInt acc)) = Ok (VInt m) /\
    (m = acc \/ In (VInt m) l) /\
    (forall x, x = acc \/ In (VInt x) l -> ext_ok want_lt m x).
Proof.
  induction l as [|v l IH]; intros acc H.
  - exists acc. split; [reflexivity|]. split; [left; reflexivity|].
    intros x [E|[]]. subst. unfold ext_ok. destruct want_lt; lia.
  - cbn [all_int] in H. destruct v as [|x| | |]; try discriminate.
    cbn [fold_left]. unfold pick_step at 2. cbn [bind val_ltb val_eqb].
    assert (Hn : exists acc', (if Bool.eqb (x <? acc)%Z want_lt then if (x =? acc)%Z then Ok (VInt acc) else Ok (VInt x) else Ok (VInt acc)) = Ok (VInt acc')
               /\ (acc' = acc \/ acc' = x) /\ ext_ok want_lt acc' acc /\ ext_ok want_lt acc' x).
    { unfold ext_ok. destruct (Z.ltb_spec x acc), (Z.eqb_spec x acc), want_lt; cbn [Bool.eqb];
        try (exists acc; split; [reflexivity|]; split; [left; reflexivity|]; lia);
        try (exists x; split; [reflexivity|]; split; [right; reflexivity|]; lia). }
    destruct Hn as [acc' [E [Hor [Ha Hx]]]]. rewrite E.
    destruct (IH acc' H) as [m [Hm [Hin Hall]]].
    exists m. split; [exact Hm|]. split.
    + destruct Hin as [->|Hin]; [|right; right; exact Hin].
      destruct Hor as [->| ->]; [left; reflexivity | right; left; reflexivity].
    + intros y Hy. pose proof (Hall acc' (or_introl eq_refl)) as Hacc'.
      destruct Hy as [->|[Ey|Hy]].
      * unfold ext_ok in *. destruct want_lt; lia.
      * inversion Ey; subst y. unfold ext_ok in *. destruct want_lt; lia.
      * apply Hall. right. exact Hy.
Qed.

Lemma pick_ext_int want_lt l : all_int l = true -> l <> [] ->
  exists m, pick_ext want_lt l = Ok (VInt m) /\ In (VInt m) l /\ (forall x, In (VInt x) l -> ext_ok want_lt m x).
Proof.
  intros H Hne. destruct l as [|v l]; [contradiction|].
  cbn [all_int] in H. destruct v as [|z| | |]; try discriminate.
  destruct (pick_fold_int want_lt l z H) as [m [Hm [Hin Hall]]].
  exists m. split; [exact Hm|]. split.
  - destruct Hin as [->|Hin]; [left; reflexivity | right; exact Hin].
  - intros x [E|Hx]; apply Hall; [left; inversion E; reflexivity | right; exact Hx].
Qed.

Theorem min_max_arrival_order op vals vals' : op = AMin \/ op = AMax ->
  all_int (filter (fun v => negb (is_null v)) vals) = true -> Permutation vals vals' ->
  aggregate op vals = aggregate op vals'.
Proof.
  intros Hop H P. pose proof (filter_perm (fun v => negb (is_null v)) _ _ P) as Pf.
  set (w := match op with AMin => true | _ => false end).
  assert (Ea : forall vs, aggregate op vs = pick_ext w (filter (fun v => negb (is_null v)) vs))
    by (intros vs; destruct Hop as [-> | ->]; reflexivity).
  rewrite !Ea.
  set (a := filter (fun v => negb (is_null v)) vals) in *.
  set (b := filter (fun v => negb (is_null v)) vals') in *.
  assert (Hb : all_int b = true) by (rewrite <- (all_int_perm _ _ Pf); exact H).
  destruct a as [|x a'] eqn:Eqa.
  - apply Permutation_nil in Pf. rewrite Pf. reflexivity.
  - assert (Hbn : b <> []) by (intros Eb; rewrite Eb in Pf; apply Permutation_sym, Permutation_nil in Pf; discriminate).
    rewrite <- Eqa in *.
    assert (Han : a <> []) by (rewrite Eqa; discriminate).
    destruct (pick_ext_int w a H Han) as [m [Em [Im Am]]].
    destruct (pick_ext_int w b Hb Hbn) as [m' [Em' [Im' Am']]].
    rewrite Em, Em'. f_equal. f_equal.
    assert (I1 : In (VInt m) b) by (eapply Permutation_in; eassumption).
    assert (I2 : In (VInt m') a) by (eapply Permutation_in; [apply Permutation_sym|]; eassumption).
    pose proof (Am m' I2) as A1. pose proof (Am' m I1) as A2. unfold ext_ok in *. destruct w; lia.
Qed.

(* Count, List and Set of integers: the evaluator sorts the non-null inputs, so the arrival order is immaterial *)
Fixpoint ints (l : list val) : list Z :=
  match l with VInt z :: l' => z :: ints l' | _ => [] end.

Lemma ints_perm l l' : all_int l = true -> Permutation l l' -> Permutation (ints l) (ints l').
Proof.
  intros H P. induction P; cbn [ints all_int] in *.
  - constructor.
  - destruct x; try discriminate. constructor. apply IHP, H.
  - destruct y; try discriminate. destruct x; try discriminate. apply perm_swap.
  - eapply perm_trans; [apply IHP1, H|]. apply IHP2. rewrite <- (all_int_perm _ _ P1). exact H.
Qed.

Lemma insert_int z : forall s, StronglySorted Z.le s ->
  exists s', insert_sorted (VInt z) (map VInt s) = Ok (map VInt s') /\ Permutation (z :: s) s' /\ StronglySorted Z.le s'.
Proof.
  induction s as [|x s IH]; intros Hs.
  - exists [z]. split; [reflexivity|]. split; [apply Permutation_refl|]. repeat constructor.
  - cbn [map insert_sorted val_ltb]. inversion Hs as [|? ? Hs' Hall]; subst.
    destruct (Z.ltb_spec x z) as [Hlt|Hge].
    + destruct (IH Hs') as [s' [E [P S]]]. rewrite E. cbn [bind]. exists (x :: s').
      split; [reflexivity|]. split.
      * eapply perm_trans; [apply perm_swap|]. apply perm_skip, P.
      * constructor; [exact S|]. apply Forall_forall. intros y Hy.
        apply Permutation_sym in P. pose proof (Permutation_in _ P Hy) as [->|Hin]; [lia|].
        rewrite Forall_forall in Hall. apply Hall, Hin.
    + exists (z :: x :: s). split; [reflexivity|]. split; [apply Permutation_refl|].
      constructor; [exact Hs|]. constructor; [exact Hge|].
      rewrite Forall_forall in *. intros y Hy. specialize (Hall y Hy). lia.
Qed.

Lemma sort_fold_int : forall l s, all_int l = true -> StronglySorted Z.le s ->
  exists s', fold_left (fun acc v => bind acc (fun a => insert_sorted v a)) l (Ok (map VInt s)) = Ok (map VInt s') /\
    Permutation (ints l ++ s) s' /\ StronglySorted Z.le s'.
Proof.
  induction l as [|v l IH]; intros s H Hs.
  - exists s. split; [reflexivity|]. split; [apply Permutation_refl | exact Hs].
  - cbn [all_int] in H. destruct v as [|z| | |]; try discriminate.
    cbn [fold_left bind ints]. destruct (insert_int z s Hs) as [s1 [E [P S]]]. rewrite E.
    destruct (IH s1 H S) as [s' [E' [P' S']]]. exists s'. split; [exact E'|]. split; [|exact S'].
    eapply perm_trans; [|exact P']. simpl. eapply perm_trans; [apply Permutation_middle|].
    apply Permutation_app_head. exact P.
Qed.

Lemma sorted_perm_eq : forall a b, StronglySorted Z.le a -> StronglySorted Z.le b -> Permutation a b -> a = b.
Proof.
  induction a as [|x a IH]; intros b Sa Sb P.
  - apply Permutation_nil in P. subst. reflexivity.
  - destruct b as [|y b]; [apply Permutation_sym, Permutation_nil in P; discriminate|].
    inversion Sa as [|? ? Sa' Ha]; subst. inversion Sb as [|? ? Sb' Hb]; subst.
    rewrite Forall_forall in Ha, Hb.
    assert (x = y).
    { pose proof (Permutation_in x P (or_introl eq_refl)) as [E|Hx]; [symmetry; exact E|].
      pose proof (Permutation_in y (Permutation_sym P) (or_introl eq_refl)) as [E|Hy]; [exact E|].
      specialize (Ha y Hy). specialize (Hb x Hx). lia. }
    subst y. f_equal. apply IH; [exact Sa' | exact Sb' | eapply Permutation_cons_inv, P].
Qed.

Theorem sort_vals_arrival_order a b : all_int a = true -> Permutation a b -> sort_vals a = sort_vals b.
Proof.
  intros H P. assert (Hb : all_int b = true) by (rewrite <- (all_int_perm _ _ P); exact H).
  unfold sort_vals.
  destruct (sort_fold_int a [] H (SSorted_nil _)) as [sa [Ea [Pa Sa]]].
  destruct (sort_fold_int b [] Hb (SSorted_nil _)) as [sb [Eb [Pb Sb]]].
  cbn [map] in Ea, Eb. rewrite Ea, Eb. f_equal. f_equal.
  apply sorted_perm_eq; [exact Sa | exact Sb|].
  rewrite app_nil_r in Pa, Pb.
  eapply perm_trans; [apply Permutation_sym, Pa|]. eapply perm_trans; [|exact Pb]. apply ints_perm; assumption.
Qed.

Theorem count_list_set_arrival_order op vals vals' : op = ACount \/ op = AList \/ op = ASet ->
  all_int (filter (fun v => negb (is_null v)) vals) = true -> Permutation vals vals' ->
  aggregate op vals = aggregate op vals'.
Proof.
  intros Hop H P. pose proof (filter_perm (fun v => negb (is_null v)) _ _ P) as Pf.
  unfold aggregate.
  set (a := filter (fun v => negb (is_null v)) vals) in *.
  set (b := filter (fun v => negb (is_null v)) vals') in *.
  pose proof (sort_vals_arrival_order a b H Pf) as Es.
  destruct a as [|x a'] eqn:Eqa.
  - apply Permutation_nil in Pf. rewrite Pf. destruct Hop as [-> | [-> | ->]]; reflexivity.
  - destruct b as [|y b'] eqn:Eqb; [apply Permutation_sym, Permutation_nil in Pf; discriminate|].
    destruct Hop as [-> | [-> | ->]]; rewrite Es; reflexivity.
Qed.

(* ArgMin / ArgMax over integer values without ties: the chosen argument does not depend on the arrival order *)
Definition arg_pairs (vs : list val) : list (val * val) :=
  flat_map (fun v => match v with
                     | VRec [(_, a); (_, b)] => if is_null b then [] else [(a, b)]
                     | _ => [] end) vs.
Definition zof (v : val) : Z := match v with VInt z => z | _ => 0%Z end.

Definition arg_step (want_lt : bool) (acc : res (val * val)) (x : val * val) : res (val * val) :=
  bind acc (fun a =>
    match val_ltb (snd x) (snd a) with
    | Some lt => if Bool.eqb lt want_lt && negb (val_eqb (snd x) (snd a)) then Ok x else Ok a
    | None => Fail E_TYPE
    end).

Lemma arg_fold_int want_lt : forall ps p, all_int (map snd (p :: ps)) = true ->
  exists r, fold_left (arg_step want_lt) ps (Ok p) = Ok r /\ In r (p :: ps) /\
    (forall q, In q (p :: ps) -> ext_ok want_lt (zof (snd r)) (zof (snd q))).
Proof.
  induction ps as [|x ps IH]; intros p H.
  - exists p. split; [reflexivity|]. split; [left; reflexivity|].
    intros q [<-|[]]. unfold ext_ok. destruct want_lt; lia.
  - cbn [map all_int] in H. destruct p as [pa pv]. destruct x as [xa xv]. cbn [snd] in H.
    destruct pv as [|zp| | |]; try discriminate. destruct xv as [|zx| | |]; try discriminate.
    cbn [fold_left]. unfold arg_step at 2. cbn [bind snd val_ltb val_eqb].
    assert (Hn : exists p', (if Bool.eqb (zx <? zp)%Z want_lt && negb (zx =? zp)%Z then Ok (xa, VInt zx) else Ok (pa, VInt zp)) = Ok p'
               /\ (p' = (pa, VInt zp) \/ p' = (xa, VInt zx)) /\ ext_ok want_lt (zof (snd p')) zp /\ ext_ok want_lt (zof (snd p')) zx).
    { unfold ext_ok. destruct (Z.ltb_spec zx zp), (Z.eqb_spec zx zp), want_lt; cbn [Bool.eqb andb negb];
        try (exists (pa, VInt zp); split; [reflexivity|]; split; [left; reflexivity|]; cbn [snd zof]; lia);
        try (exists (xa, VInt zx); split; [reflexivity|]; split; [right; reflexivity|]; cbn [snd zof]; lia). }
    destruct Hn as [p' [E [Hor [Hp Hx]]]]. rewrite E.
    assert (H' : all_int (map snd (p' :: ps)) = true) by (destruct Hor as [-> | ->]; exact H).
    destruct (IH p' H') as [r [Hr [Hin Hall]]].
    exists r. split; [exact Hr|]. split.
    + destruct Hin as [<-|Hin]; [|right; right; exact Hin].
      destruct Hor as [-> | ->]; [left; reflexivity | right; left; reflexivity].
    + intros q Hq. pose proof (Hall p' (or_introl eq_refl)) as Hp'.
      destruct Hq as [<-|[<-|Hq]]; cbn [snd zof].
      * unfold ext_ok in *. destruct want_lt; lia.
      * unfold ext_ok in *. destruct want_lt; lia.
      * apply Hall. right. exact Hq.
Qed.

Lemma nodup_snd_inj (l : list (val * val)) a b :
  NoDup (map (fun p => zof (snd p)) l) -> In a l -> In b l -> zof (snd a) = zof (snd b) -> a = b.
Proof.
  induction l as [|x l IH]; intros ND Ha Hb E; [contradiction|].
  cbn [map] in ND. inversion ND as [|? ? Hnot ND']; subst.
  destruct Ha as [<-|Ha], Hb as [<-|Hb]; try reflexivity.
  - exfalso. apply Hnot. rewrite E. apply (in_map (fun p => zof (snd p))), Hb.
  - exfalso. apply Hnot. rewrite <- E. apply (in_map (fun p => zof (snd p))), Ha.
  - apply IH; assumption.
Qed.

Theorem argmin_argmax_arrival_order want_lt vals vals' :
  all_int (map snd (arg_pairs vals)) = true ->
  NoDup (map (fun p => zof (snd p)) (arg_pairs vals)) ->
  Permutation vals vals' ->
  arg_ext want_lt vals = arg_ext want_lt vals'.
Proof.
  intros H ND P.
  assert (Pp : Permutation (arg_pairs vals) (arg_pairs vals')) by (apply Permutation_flat_map, P).
  assert (H' : all_int (map snd (arg_pairs vals')) = true)
    by (rewrite <- (all_int_perm _ _ (Permutation_map snd Pp)); exact H).
  unfold arg_ext. fold (arg_pairs vals). fold (arg_pairs vals').
  destruct (arg_pairs vals) as [|p ps] eqn:Ea.
  - apply Permutation_nil in Pp. rewrite Pp. reflexivity.
  - destruct (arg_pairs vals') as [|p' ps'] eqn:Eb; [apply Permutation_sym, Permutation_nil in Pp; discriminate|].
    destruct (arg_fold_int want_lt ps p H) as [r [Er [Ir Ar]]].
    destruct (arg_fold_int want_lt ps' p' H') as [r' [Er' [Ir' Ar']]].
    change (fold_left _ ps (Ok p)) with (fold_left (arg_step want_lt) ps (Ok p)).
    change (fold_left _ ps' (Ok p')) with (fold_left (arg_step want_lt) ps' (Ok p')).
    rewrite Er, Er'. cbn [bind]. f_equal. f_equal.
    assert (I1 : In r (p' :: ps')) by (eapply Permutation_in; eassumption).
    assert (I2 : In r' (p :: ps)) by (eapply Permutation_in; [apply Permutation_sym|]; eassumption).
    apply (nodup_snd_inj (p :: ps)); [exact ND | exact Ir | exact I2 |].
    pose proof (Ar r' I2) as A1. pose proof (Ar' r I1) as A2. unfold ext_ok in *. destruct want_lt; lia.
Qed.
