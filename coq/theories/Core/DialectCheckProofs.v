(* Soundness of the defect listing of Core/DialectCheck.v: for every cell of the (regenerated) dialect
   tables that is NOT in defect_cells, the instantiation the compiler performs there is total and
   yields closed text, for all closed arguments of every admissible arity; every method call fits. *)
From Coq Require Import List String NArith Bool Arith Lia.
Import ListNotations.
From LV Require Import Core.DialectSig Core.SqlText Core.SqlTextProofs Core.DialectCheck.
From LVGen Require Import DialectTables.
Local Open Scope string_scope.

Lemma in_defects : forall d c, In d dialects -> In c (defects_of d) -> In c defect_cells.
Proof. intros d c Hd Hc. unfold defect_cells. apply in_flat_map. exists d. split; assumption. Qed.

Lemma filtered_cell : forall (A : Type) (ok : A -> bool) (mk : A -> cell) (l : list A) x,
  In x l -> ok x = false -> In (mk x) (map mk (filter (fun y => negb (ok y)) l)).
Proof.
  intros A ok mk l x Hin Hok. apply in_map. apply filter_In. split; [exact Hin|]. rewrite Hok. reflexivity.
Qed.

Lemma assoc_in : forall k l v, assoc k l = Some v -> In k (map fst l).
Proof.
  intros k l v H. unfold assoc in H. destruct (find (fun p => String.eqb (fst p) k) l) as [p|] eqn:E; [|discriminate].
  apply find_some in E. destruct E as [Hin He]. apply String.eqb_eq in He. subst k.
  apply in_map. exact Hin.
Qed.

Lemma bulk_lookup_in : forall n b, bulk_lookup n = Some b -> In n (map bf_name bulk_functions).
Proof.
  intros n b H. unfold bulk_lookup in H. apply find_some in H. destruct H as [Hin He].
  apply String.eqb_eq in He. subst n. apply in_map. exact Hin.
Qed.

Lemma eff_function_name : forall d n t, eff_function d n = Some t -> In n (function_names d).
Proof.
  intros d n t H. unfold eff_function in H. unfold function_names.
  destruct (assoc n (d_functions d)) eqn:E1.
  - apply in_or_app. left. eapply assoc_in; exact E1.
  - destruct (assoc n ql_functions) eqn:E2.
    + apply in_or_app. right. apply in_or_app. left. eapply assoc_in; exact E2.
    + destruct (bulk_lookup n) eqn:E3; [|discriminate].
      apply in_or_app. right. apply in_or_app. right. eapply bulk_lookup_in; exact E3.
Qed.

Lemma eff_infix_name : forall d n t, eff_infix d n = Some t -> In n (infix_names d).
Proof.
  intros d n t H. unfold eff_infix in H. unfold infix_names.
  destruct (assoc n (d_infix d)) eqn:E1.
  - apply in_or_app. left. eapply assoc_in; exact E1.
  - apply in_or_app. right. eapply assoc_in; exact H.
Qed.

Ltac bool_case b := let E := fresh "E" in destruct b eqn:E.

(* built-in and bulk functions: QL.Function on the template the dialect ends up with *)
Theorem function_cell_sound : forall d name tpl lo hi args,
  In d dialects -> ~ In (d_key d, "function", name) defect_cells ->
  eff_function d name = Some tpl -> arity_of name = Some (lo, hi) ->
  (lo <= List.length args)%nat -> Forall (closed (qs_of d)) args ->
  exists out, inst_function (bytes tpl) args = Some out /\ closed (qs_of d) out.
Proof.
  intros d name tpl lo hi args Hd Hnot Ht Ha Hlo Hargs.
  assert (Hok : function_ok d name = true).
  { bool_case (function_ok d name); [reflexivity|]. exfalso. apply Hnot. apply (in_defects d); [exact Hd|].
    unfold defects_of. apply in_or_app. right. apply in_or_app. left.
    apply (filtered_cell string (function_ok d) (fun n => (d_key d, "function", n))); [|exact E].
    eapply eff_function_name; exact Ht. }
  unfold function_ok in Hok. rewrite Ht, Ha in Hok.
  apply (function_inst_ok (qs_of d) (bytes tpl) lo args Hok Hlo Hargs).
Qed.

Theorem infix_cell_sound : forall d name tpl l r,
  In d dialects -> ~ In (d_key d, "infix", name) defect_cells ->
  eff_infix d name = Some tpl -> closed (qs_of d) l -> closed (qs_of d) r ->
  exists out, inst_infix (bytes tpl) l r = Some out /\ closed (qs_of d) out.
Proof.
  intros d name tpl l r Hd Hnot Ht Hl Hr.
  assert (Hok : infix_ok d name = true).
  { bool_case (infix_ok d name); [reflexivity|]. exfalso. apply Hnot. apply (in_defects d); [exact Hd|].
    unfold defects_of. apply in_or_app. right. apply in_or_app. right. apply in_or_app. left.
    apply (filtered_cell string (infix_ok d) (fun n => (d_key d, "infix", n))); [|exact E].
    eapply eff_infix_name; exact Ht. }
  unfold infix_ok in Hok. rewrite Ht in Hok.
  apply (infix_inst_ok (qs_of d) (bytes tpl) l r Hok Hl Hr).
Qed.

Theorem analytic_cell_sound : forall d name tpl args,
  In d dialects -> ~ In (d_key d, "analytic", name) defect_cells ->
  assoc name ql_analytic = Some tpl -> List.length args = analytic_nargs name ->
  Forall (closed (qs_of d)) args ->
  exists out, inst_format (bytes tpl) args = Some out /\ closed (qs_of d) out.
Proof.
  intros d name tpl args Hd Hnot Ht Hn Hargs.
  assert (Hok : analytic_ok d name = true).
  { bool_case (analytic_ok d name); [reflexivity|]. exfalso. apply Hnot. apply (in_defects d); [exact Hd|].
    unfold defects_of. do 3 (apply in_or_app; right). apply in_or_app. left.
    apply (filtered_cell string (analytic_ok d) (fun n => (d_key d, "analytic", n))); [|exact E].
    eapply assoc_in; exact Ht. }
  unfold analytic_ok in Hok. rewrite Ht, <- Hn in Hok.
  apply (format_inst_ok (qs_of d) (bytes tpl) args Hok Hargs).
Qed.

Theorem unnest_cell_sound : forall d lst el,
  In d dialects -> ~ In (d_key d, "phrase", "UnnestPhrase") defect_cells ->
  closed (qs_of d) lst -> closed (qs_of d) el ->
  exists out, inst_format (bytes (d_unnest d)) [lst; el] = Some out /\ closed (qs_of d) out.
Proof.
  intros d lst el Hd Hnot Hl He.
  assert (Hok : unnest_ok d = true).
  { bool_case (unnest_ok d); [reflexivity|]. exfalso. apply Hnot. apply (in_defects d); [exact Hd|].
    unfold defects_of. do 4 (apply in_or_app; right). apply in_or_app. left. rewrite E. left. reflexivity. }
  apply (format_inst_ok (qs_of d) (bytes (d_unnest d)) [lst; el] Hok). repeat constructor; assumption.
Qed.

Theorem array_cell_sound : forall d internals,
  In d dialects -> ~ In (d_key d, "phrase", "ArrayPhrase") defect_cells ->
  closed (qs_of d) internals ->
  exists out, inst_percent (bytes (d_array d)) [internals] = Some out /\ closed (qs_of d) out.
Proof.
  intros d internals Hd Hnot Hi.
  assert (Hok : array_ok d = true).
  { bool_case (array_ok d); [reflexivity|]. exfalso. apply Hnot. apply (in_defects d); [exact Hd|].
    unfold defects_of. do 5 (apply in_or_app; right). apply in_or_app. left. rewrite E. left. reflexivity. }
  apply (percent_inst_ok (qs_of d) no_allow (bytes (d_array d)) [internals] Hok).
  intros i a E. unfold arg_ok, no_allow. destruct i; simpl in E; [inversion E; subst; exact Hi|destruct i; discriminate].
Qed.

(* dialect.Subscript: the record argument closed, every other argument (field name, col<N>, * ) inert *)
Theorem subscript_cell_sound : forall d sf args,
  In d dialects -> ~ In (d_key d, "subscript-format", "Subscript") defect_cells ->
  In sf (d_subscript d) -> List.length args = List.length (sf_args sf) ->
  (forall i a, nth_error args i = Some a -> arg_ok (qs_of d) (allow_sub sf) (KIdx i) a) ->
  exists out, inst_percent (bytes (sf_format sf)) args = Some out /\ closed (qs_of d) out.
Proof.
  intros d sf args Hd Hnot Hsf Hn Hargs.
  assert (Hok : subscript_ok d = true).
  { bool_case (subscript_ok d); [reflexivity|]. exfalso. apply Hnot. apply (in_defects d); [exact Hd|].
    unfold defects_of. do 6 (apply in_or_app; right). rewrite E. left. reflexivity. }
  unfold subscript_ok in Hok. rewrite forallb_forall in Hok. specialize (Hok sf Hsf).
  unfold subscript_format_ok in Hok. rewrite <- Hn in Hok.
  apply (percent_inst_ok (qs_of d) (allow_sub sf) (bytes (sf_format sf)) args Hok Hargs).
Qed.

(* no_internal: outside the listed cells every call of a dialect method fits the method's parameters *)
Theorem method_cell_sound : forall d cs,
  In d dialects -> In cs call_sites -> ~ In (d_key d, "method", cs_method cs) defect_cells ->
  exists m, In m (d_methods d) /\ ms_name m = cs_method cs /\
            (ms_min m <= cs_nargs cs)%nat /\ (cs_nargs cs <= ms_max m)%nat.
Proof.
  intros d cs Hd Hcs Hnot.
  assert (Hok : method_ok d cs = true).
  { bool_case (method_ok d cs); [reflexivity|]. exfalso. apply Hnot. apply (in_defects d); [exact Hd|].
    unfold defects_of. apply in_or_app. left.
    apply (filtered_cell call_site (method_ok d) (fun c => (d_key d, "method", cs_method c))); assumption. }
  unfold method_ok in Hok.
  destruct (find (fun m => String.eqb (ms_name m) (cs_method cs)) (d_methods d)) as [m|] eqn:E; [|discriminate].
  apply find_some in E. destruct E as [Hin He]. apply String.eqb_eq in He.
  apply andb_true_iff in Hok. destruct Hok as [H1 H2]. apply Nat.leb_le in H1. apply Nat.leb_le in H2.
  exists m. repeat split; assumption.
Qed.

(* and the listed cells are genuine: the model's check fails there *)
Theorem defect_cells_complete : forall d, In d dialects ->
  (forall cs, In cs call_sites -> method_ok d cs = false -> In (d_key d, "method", cs_method cs) defect_cells) /\
  (forall n, In n (function_names d) -> function_ok d n = false -> In (d_key d, "function", n) defect_cells) /\
  (forall n, In n (infix_names d) -> infix_ok d n = false -> In (d_key d, "infix", n) defect_cells).
Proof.
  intros d Hd. split; [|split]; intros x Hin Hf; apply (in_defects d); try exact Hd; unfold defects_of.
  - apply in_or_app. left.
    apply (filtered_cell call_site (method_ok d) (fun c => (d_key d, "method", cs_method c))); assumption.
  - apply in_or_app. right. apply in_or_app. left.
    apply (filtered_cell string (function_ok d) (fun n => (d_key d, "function", n))); assumption.
  - do 2 (apply in_or_app; right). apply in_or_app. left.
    apply (filtered_cell string (infix_ok d) (fun n => (d_key d, "infix", n))); assumption.
Qed.

Theorem duckdb_templates_no_backslash : duckdb_no_backslash = true.
Proof. vm_compute. reflexivity. Qed.

(* All eight engines of the property are in the table (finite, regenerated). *)
Theorem engines_present :
  forallb (fun k => mem_string k engine_keys)
          ["sqlite"; "duckdb"; "psql"; "bigquery"; "trino"; "presto"; "clickhouse"; "databricks"] = true.
Proof. vm_compute. reflexivity. Qed.
