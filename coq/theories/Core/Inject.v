(* Model of compiler/universe.py LogicaProgram.RunInjections + InjectStructure on the conjunctive fragment:
   a table of the rule structure that reads a predicate defined by a single, non distinct, injectible rule
   is replaced by the tables of that rule; the callee's structure (extracted with the SAME allocator, then
   eliminated without the completeness assertion) is merged into the caller's, and every column the caller
   read from the replaced table is unified with the callee's select expression of that field.
   Tables are identified by their allocator number (t_N_...), as in the Python code, so a row choice is a
   list of rows indexed by table number and nothing is re-indexed by an injection.
   Tied to the code by props/injecttie.py (called from props/c08.py): the structure the real RunInjections
   leaves (select, unifications, constraints, column map, table list) must equal `run_injections`.
   Proofs are in InjectProofs.v. *)
From Coq Require Import List ZArith Bool Arith.
Import ListNotations.
From LV Require Import Core.Syntax Core.Eval Core.Elim Core.Extract.

(* ExtractRuleStructure with a shared allocator: n0 = aux_var_num, t0 = table_num at the call *)
Definition extract_at (r : crule) (n0 t0 : nat) : ext :=
  let '(uh, n1) := extract_head (k_head r) n0 in
  let '(ub, co, cm, ts, n2) := extract_body (k_body r) t0 n1 in
  {| x_rs := {| sel := k_head r; unifs := uh ++ ub; cons := co |};
     x_cols := cm; x_tables := ts; x_next := n2 |}.

(* state of the caller's structure during RunInjections *)
Record ist := {
  i_rs : rs;
  i_cols : colmap;                      (* inv_vars_map, in insertion order *)
  i_tabs : list (nat * pred);           (* s.tables: table number |-> predicate, in order *)
  i_nv : nat;                           (* allocator: next variable *)
  i_nt : nat                            (* allocator: next table *)
}.

Fixpoint number_from (t0 : nat) (ts : list pred) : list (nat * pred) :=
  match ts with [] => [] | p :: ts' => (t0, p) :: number_from (S t0) ts' end.

Definition ist_of_rule (r : crule) : ist :=
  let e := extract_at r 0 0 in
  {| i_rs := x_rs e; i_cols := x_cols e; i_tabs := number_from 0 (x_tables e);
     i_nv := x_next e; i_nt := length (x_tables e) |}.

Inductive outcome (A : Type) := Done (a : A) | Reject | Fuel.
Arguments Done {A} a. Arguments Reject {A}. Arguments Fuel {A}.

(* rs.ElliminateInternalVariables(assert_full_ellimination=False): the loop, then a user variable that is
   still internal is "Found no way to assign variables" (compiler variables x_N may remain) *)
Definition pre_eliminate (is_x : var -> bool) (E : list var) (s : rs) : outcome rs :=
  let V := internal_vars E s in
  match rounds is_x E V (S (S (length V))) s with
  | None => Fuel
  | Some s1 => if existsb (fun v => negb (is_x v)) (internal_vars E s1) then Reject else Done s1
  end.

Definition reads (tid : nat) (c : var * (nat * field)) : bool := Nat.eqb (fst (snd c)) tid.

(* clause_var = rs.select[table_var] for every column read from the replaced table; None = the callee has
   no such argument (RuleCompileException) *)
Fixpoint links (sl : list (field * pexpr)) (mine : colmap) : option (list (pexpr * pexpr)) :=
  match mine with
  | [] => Some []
  | (x, (_, f)) :: mine' =>
      match lookup_field f sl, links sl mine' with
      | Some e, Some ls => Some ((PVar x, e) :: ls)
      | _, _ => None
      end
  end.

Fixpoint replace_tab (tid : nat) (new : list (nat * pred)) (ts : list (nat * pred)) : list (nat * pred) :=
  match ts with
  | [] => []
  | (t, p) :: ts' => if Nat.eqb t tid then new ++ ts' else (t, p) :: replace_tab tid new ts'
  end.

(* the body of `if len(rules) == 1 and ... OkInjection`: inject the rule cr for table tid *)
Definition inject_one (is_x : var -> bool) (st : ist) (tid : nat) (cr : crule) : outcome ist :=
  let e := extract_at cr (i_nv st) (i_nt st) in
  match pre_eliminate is_x (map fst (x_cols e)) (x_rs e) with
  | Fuel => Fuel
  | Reject => Reject
  | Done s1 =>
      let mine := filter (reads tid) (i_cols st) in
      let others := filter (fun c => negb (reads tid c)) (i_cols st) in
      match links (sel s1) mine with
      | None => Reject
      | Some ls =>
          Done {| i_rs := {| sel := sel (i_rs st);
                             unifs := unifs (i_rs st) ++ unifs s1 ++ ls;
                             cons := cons (i_rs st) ++ cons s1 |};
                  i_cols := others ++ x_cols e;
                  i_tabs := replace_tab tid (number_from (i_nt st) (x_tables e)) (i_tabs st);
                  i_nv := x_next e;
                  i_nt := i_nt st + length (x_tables e) |}
      end
  end.

(* the injectible predicates of the program: predicate |-> its only rule *)
Definition defs := list (pred * crule).
Fixpoint def_of (D : defs) (p : pred) : option crule :=
  match D with [] => None | (q, r) :: D' => if Nat.eqb p q then Some r else def_of D' p end.

(* for table_name_rsql, table_predicate_rsql in s.tables.items(): (a snapshot of the table list) *)
Fixpoint inject_round (is_x : var -> bool) (D : defs) (snapshot : list (nat * pred)) (st : ist) (changed : bool)
    : outcome (ist * bool) :=
  match snapshot with
  | [] => Done (st, changed)
  | (tid, p) :: rest =>
      match def_of D p with
      | None => inject_round is_x D rest st changed
      | Some cr =>
          match inject_one is_x st tid cr with
          | Done st' => inject_round is_x D rest st' true
          | Reject => Reject
          | Fuel => Fuel
          end
      end
  end.

(* while True: ... if s.tables == new_tables: break *)
Fixpoint run_injections (is_x : var -> bool) (D : defs) (fuel : nat) (st : ist) : outcome ist :=
  match fuel with
  | O => Fuel
  | S fuel' =>
      match inject_round is_x D (i_tabs st) st false with
      | Done (st', true) => run_injections is_x D fuel' st'
      | Done (st', false) => Done st'
      | Reject => Reject
      | Fuel => Fuel
      end
  end.

(* ---------- Spec: what a structure over a row choice denotes ---------- *)
Section Spec.
  Variable app : nat -> list val -> val.

  (* tau gives every column variable the cell of the chosen row it reads; rows are indexed by table number *)
  Definition cells (tau : var -> val) (cm : colmap) (rho : choice) : Prop :=
    forall x t f, In (x, (t, f)) cm ->
    exists rw, nth_error rho t = Some rw /\ lookup_field f rw = Some (tau x).

  (* the structure, read over the row choice rho, emits the row out *)
  Definition denotes (s : rs) (cm : colmap) (rho : choice) (out : row) : Prop :=
    exists tau, cells tau cm rho /\ solves app tau s /\ output app tau s = out.

  Fixpoint set_nth {A} (n : nat) (a : A) (l : list A) : list A :=
    match n, l with
    | _, [] => []
    | O, _ :: l' => a :: l'
    | S n', b :: l' => b :: set_nth n' a l'
    end.
End Spec.

(* ---------- comparison with the real structure ---------- *)
Definition tabs_eqb (a b : list (nat * pred)) : bool :=
  list_eqb (fun x y => Nat.eqb (fst x) (fst y) && Nat.eqb (snd x) (snd y)) a b.

(* side conditions of the semantic theorem (InjectProofs.inject_denotes), decided per instance:
   every variable of the callee's pre-eliminated structure is one of its column variables, and the
   caller's structure and column map mention no variable the callee's extraction allocated *)
Definition below (n : nat) (x : var) : bool := Nat.ltb x (xvar n).
Definition callee_closed (is_x : var -> bool) (st : ist) (cr : crule) : bool :=
  let e := extract_at cr (i_nv st) (i_nt st) in
  match pre_eliminate is_x (map fst (x_cols e)) (x_rs e) with
  | Done s1 => match internal_vars (map fst (x_cols e)) s1 with [] => true | _ => false end
  | _ => false
  end.
Definition caller_below (st : ist) : bool :=
  forallb (below (i_nv st)) (rs_vars (i_rs st)) && forallb (fun c => below (i_nv st) (fst c)) (i_cols st).

(* the side conditions at every injection the run performs *)
Fixpoint side_round (is_x : var -> bool) (D : defs) (snapshot : list (nat * pred)) (st : ist) (changed ok : bool)
    : option (ist * bool * bool) :=
  match snapshot with
  | [] => Some (st, changed, ok)
  | (tid, p) :: rest =>
      match def_of D p with
      | None => side_round is_x D rest st changed ok
      | Some cr =>
          match inject_one is_x st tid cr with
          | Done st' => side_round is_x D rest st' true (ok && callee_closed is_x st cr && caller_below st)
          | _ => None
          end
      end
  end.

Fixpoint side_run (is_x : var -> bool) (D : defs) (fuel : nat) (st : ist) (ok : bool) : bool :=
  match fuel with
  | O => false
  | S fuel' =>
      match side_round is_x D (i_tabs st) st false ok with
      | Some (st', true, ok') => side_run is_x D fuel' st' ok'
      | Some (_, false, ok') => ok'
      | None => false
      end
  end.

(* 0: equal to the real structure; 1: both reject; 2: differ; 3: out of fuel *)
Definition judge_inject (is_x : var -> bool) (D : defs) (r : crule)
    (real : option (rs * colmap * list (nat * pred))) : nat :=
  match run_injections is_x D 50 (ist_of_rule r), real with
  | Fuel, _ => 3
  | Reject, None => 1
  | Done st, Some (s, cm, ts) =>
      if rs_eqb (i_rs st) s && colmap_eqb (i_cols st) cm && tabs_eqb (i_tabs st) ts then 0 else 2
  | _, _ => 2
  end.

(* 1: the hypotheses of InjectProofs.inject_denotes hold at every injection of the run; 0: not *)
Definition judge_side (is_x : var -> bool) (D : defs) (r : crule) : nat :=
  if side_run is_x D 50 (ist_of_rule r) true then 1 else 0.
