(* C04 — programs, their meaning, and an executable model of compiler/functors.py
   (Functors.ArgsOf as reachability, CallKey, CallFunctor, CollectAnnotations, MakeAll).
   Model only: no proofs in this file (proofs: Functors/Functor.v).

   A rule is (head predicate, list of predicates it uses, opaque body id).  The harness interns
   predicate names as nat.  The body id is a fingerprint of the rule's syntax tree with the
   predicate names blanked, so "rename r" is exactly what functors.py's Walk(rules, ReplacePredicate)
   does to a deep copy of the rule. *)
From Coq Require Import List Bool Arith NArith Lia.
Import ListNotations.

Definition pred := N.
Record rule := mkRule { head : pred; uses : list pred; body : nat }.
Definition program := list rule.

Definition mem (x : pred) (l : list pred) : bool := existsb (N.eqb x) l.
Definition rules_of (P : program) (p : pred) : list rule := filter (fun r => (head r =? p)%N) P.
Definition heads (P : program) : list pred := map head P.

(* finite maps predicate -> predicate (args_map / extended_args_map of CallFunctor) *)
Definition ren := list (pred * pred).
Fixpoint lookup (m : ren) (x : pred) : option pred :=
  match m with
  | [] => None
  | (a, b) :: t => if (a =? x)%N then Some b else lookup t x
  end.
Definition app (m : ren) (x : pred) : pred := match lookup m x with Some y => y | None => x end.
Definition rename (m : ren) (r : rule) : rule :=
  mkRule (app m (head r)) (map (app m) (uses r)) (body r).

(* what the meaning of a predicate is computed from: the (uses, body) parts of its rules *)
Definition rbody := (list pred * nat)%type.
Definition rb (r : rule) : rbody := (uses r, body r).
Definition ren_body (f : pred -> pred) (b : rbody) : rbody := (map f (fst b), snd b).
Definition bodies (P : program) (p : pred) : list rbody := map rb (rules_of P p).

(* direct-use graph and reachability (specification of Functors.args_of) *)
Inductive Reach (P : program) : pred -> pred -> Prop :=
| Reach1 : forall r u, In r P -> In u (uses r) -> Reach P (head r) u
| ReachS : forall r u v, In r P -> In u (uses r) -> Reach P u v -> Reach P (head r) v.

Definition ranked (rk : pred -> nat) (P : program) : Prop :=
  forall r, In r P -> forall u, In u (uses r) -> rk u < rk (head r).

(* ------------------------------------------------------------------------------------------ *)
(* Meaning.  [gsem bs env] is the relation defined by a group of rule bodies (all the rules of one
   predicate: union of bags, or union followed by the aggregation of the head) when the predicates
   it mentions denote [env].  It is a Section variable; the two laws it has to satisfy are
   hypotheses of the Section in Functor.v, not axioms. *)
Section Meaning.
  Variable rel : Type.
  Variable ext : pred -> rel.                 (* predicates without rules: tables / built-ins *)
  Variable gsem : list rbody -> (pred -> rel) -> rel.

  (* one application of the definition of p *)
  Definition pden (P : program) (E : pred -> rel) (p : pred) : rel :=
    match bodies P p with
    | [] => ext p
    | bs => gsem bs E
    end.

  (* E is the meaning of program P *)
  Definition is_model (P : program) (E : pred -> rel) : Prop := forall p, E p = pden P E p.

  (* E is the meaning of "P in which every a in dom s is redefined as s(a)", the values being
     taken from [base] (the meaning of the program before the redefinition) *)
  Definition pden_ov (P : program) (s : ren) (base E : pred -> rel) (p : pred) : rel :=
    match lookup s p with
    | Some b => base b
    | None => pden P E p
    end.
  Definition is_model_ov (P : program) (s : ren) (base E : pred -> rel) : Prop :=
    forall p, E p = pden_ov P s base E p.

  (* fuelled evaluation; [dflt] is the out-of-fuel value; for a ranked program
     [fun p => den dflt (S (rk p)) P p] does not depend on it and is the model (Functor.v) *)
  Fixpoint den (dflt : rel) (n : nat) (P : program) (p : pred) : rel :=
    match n with
    | 0 => dflt
    | S k => pden P (den dflt k P) p
    end.
  Fixpoint den_ov (dflt : rel) (s : ren) (base : pred -> rel) (n : nat) (P : program) (p : pred) : rel :=
    match n with
    | 0 => dflt
    | S k => pden_ov P s base (den_ov dflt s base k P) p
    end.
End Meaning.

(* ------------------------------------------------------------------------------------------ *)
(* Executable model of functors.py *)

Definition direct (P : program) (p : pred) : list pred :=
  nodup N.eq_dec (concat (map uses (rules_of P p))).
Definition grow (P : program) (S : list pred) : list pred :=
  nodup N.eq_dec (S ++ concat (map (direct P) S)).
Fixpoint iter {A} (n : nat) (f : A -> A) (x : A) : A := match n with 0 => x | S k => iter k f (f x) end.
(* Functors.args_of[p]: everything reachable from p in the direct-use graph *)
Definition args_of (P : program) (p : pred) : list pred := iter (length P) (grow P) (direct P p).

Inductive result (A : Type) : Type :=
| Ok : A -> result A
| Err : nat -> result A.
Arguments Ok {A}. Arguments Err {A}.
(* error codes: 1 bad args, 2 recursion not eliminated, 3 no rules, 4 no make order,
   5 applicant unknown (KeyError in MakeAll) *)

(* cache entry: ((predicate, relevant bindings), clone name) = cached_calls[CallKey] *)
Definition key := (pred * ren)%type.
Fixpoint ren_eqb (a b : ren) : bool :=
  match a, b with
  | [], [] => true
  | (x, y) :: a', (x', y') :: b' => (x =? x')%N && (y =? y')%N && ren_eqb a' b'
  | _, _ => false
  end.
Definition key_eqb (a b : key) : bool := (fst a =? fst b)%N && ren_eqb (snd a) (snd b).
Fixpoint cache_get (c : list (key * pred)) (k : key) : option pred :=
  match c with
  | [] => None
  | (k', v) :: t => if key_eqb k' k then Some v else cache_get t k
  end.

Record state := mkState { prog : program; cache : list (key * pred); count : nat }.

(* CallKey: the bindings of s whose argument is in args_of[q] (s is given sorted by name) *)
Definition call_key (P : program) (s : ren) (q : pred) : key :=
  (q, filter (fun kv => mem (fst kv) (args_of P q)) s).

Section Exec.
  Variable cname : pred -> nat -> pred.       (* X, n |-> X_f<n> *)
  Variable ann : list pred.                   (* @Limit @OrderBy @Ground @NoInject @Iteration *)

  (* what CallFunctor decides for the applicant F, arguments s, new name N, in state st:
     (extended_args_map, predicates whose rules are cloned, cache update) *)
  Definition plan (st : state) (N F : pred) (s : ren) : ren * list pred * list (key * pred) :=
    let P := prog st in
    let c := S (count st) in
    let dom := map fst s in
    let cand := filter (fun q => negb (q =? F)%N) (args_of P F) in
    let sel := filter (fun q => existsb (fun a => mem a (args_of P q)) dom
                                && negb (mem q dom)
                                && negb (match rules_of P q with [] => true | _ => false end)) cand in
    let step := fun (acc : ren * list pred * list (key * pred)) (q : pred) =>
      let '(m, cl, cu) := acc in
      let k := call_key P s q in
      match cache_get (cache st) k with
      | Some nm => (m ++ [(q, nm)], cl, cu)
      | None => (m ++ [(q, cname q c)], cl ++ [q], cu ++ [(k, cname q c)])
      end in
    fold_left step sel (s ++ [(F, N)], [F], []).

  Definition call_functor (st : state) (N F : pred) (s : ren) : result state :=
    let P := prog st in
    let aF := args_of P F in
    if negb (forallb (fun kv => mem (fst kv) aF) s) then Err 1
    else if mem F aF then Err 2
    else match rules_of P F with
    | [] => Err 3
    | _ =>
      let '(m, cl, cu) := plan st N F s in
      let cloned := filter (fun r => mem (head r) cl) P in
      let annots := filter (fun r => mem (head r) ann &&
                                     match uses r with u :: _ => mem u cl | [] => false end) P in
      Ok (mkState (P ++ map (rename m) (cloned ++ annots)) (cache st ++ cu) (S (count st)))
    end.

  (* MakeAll: passes over the instructions (given sorted by new predicate name) *)
  Definition make := (pred * pred * ren)%type.   (* new name, applicant, args *)
  Definition inter (a b : list pred) : bool := existsb (fun x => mem x b) a.

  Fixpoint one_pass (ms : list make) (needs : list pred) (st : state) (built : bool)
    : result (state * list pred * bool) :=
    match ms with
    | [] => Ok (st, needs, built)
    | (N, F, s) :: t =>
      if negb (mem N needs) || mem F needs then one_pass t needs st built
      else if negb (mem F (heads (prog st))) then Err 5
      else if inter (args_of (prog st) F) needs || inter (map snd s) needs then one_pass t needs st built
      else match call_functor st N F s with
           | Err e => Err e
           | Ok st' => one_pass t (filter (fun x => negb (x =? N)%N) needs) st' true
           end
    end.

  Fixpoint passes (fuel : nat) (ms : list make) (needs : list pred) (st : state) : result state :=
    match needs with
    | [] => Ok st
    | _ => match fuel with
           | 0 => Err 4
           | S k => match one_pass ms needs st false with
                    | Err e => Err e
                    | Ok (st', needs', built) => if built then passes k ms needs' st' else Err 4
                    end
           end
    end.

  Definition make_all (P : program) (ms : list make) (consts : list rule) : result program :=
    match passes (S (length ms)) ms (map (fun m => fst (fst m)) ms) (mkState P [] 0) with
    | Err e => Err e
    | Ok st => Ok (prog st ++ consts)
    end.
End Exec.
