(* C03 — how many applications of the immediate-consequence operator each unfolding performs.
   Every proof unfolds the definitions of gen/RecursionParams.v, so it is re-checked against what
   the source says now. *)
From Coq Require Import List ZArith Bool Lia ZifyBool.
Import ListNotations.
From LVGen Require Import RecursionParams.
From LV Require Import Functors.Recursion.
Open Scope Z_scope.

Ltac Zify.zify_post_hook ::= Z.to_euclidean_division_equations.

Ltac brk := repeat match goal with
  | |- context [?a <=? ?b] => let E := fresh "E" in destruct (a <=? b) eqn:E
  | |- context [?a <? ?b] => let E := fresh "E" in destruct (a <? b) eqn:E
  end; simpl; try reflexivity; try lia.

Section Proofs.
  Variable A : Type.
  Variable T : A -> A.
  Variable bot : A.
  Notation Tn := (Tn A T).
  Notation exec := (exec A T bot).
  Notation exec1 := (exec1 A T bot).
  Notation upd := (upd A).
  Notation store := (store A).

  Lemma Tn_add : forall a b x, Tn (a + b) x = Tn a (Tn b x).
  Proof. induction a; intros; simpl; [reflexivity|]. now rewrite IHa. Qed.

  Lemma exec_app : forall l1 l2 s,
    exec s (l1 ++ l2) = match exec s l1 with Some s' => exec s' l2 | None => None end.
  Proof.
    induction l1; intros; simpl; [reflexivity|]. destruct (exec1 s a); [apply IHl1|reflexivity].
  Qed.

  (* the canonical chain: table k := T(table (k-1)), table 0 := T(nil) *)
  Definition chain (n : nat) : list instr :=
    map (fun k : nat => (Z.of_nat k, match k with O => None | S j => Some (Z.of_nat j) end)) (seq 0 n).

  Definition chain_inv (n : nat) (s : store) : Prop :=
    forall j, s j = if (0 <=? j) && (j <? Z.of_nat n) then Some (Tn (S (Z.to_nat j)) bot) else None.

  Lemma exec_chain : forall n, exists s, exec (empty A) (chain n) = Some s /\ chain_inv n s.
  Proof.
    induction n.
    - exists (empty A). split; [reflexivity|]. intro j. unfold empty.
      brk.
    - destruct IHn as [s [He Hi]]. unfold chain in *. rewrite seq_S, map_app, exec_app, He. simpl.
      destruct n as [|m].
      + unfold Recursion.exec1. simpl. eexists; split; [reflexivity|]. intro j. unfold Recursion.upd.
        rewrite (Hi j). destruct (Z.eqb_spec j 0).
        * subst. reflexivity.
        * brk.
      + cbv beta iota delta [Recursion.exec1 snd fst]. rewrite (Hi (Z.of_nat m)).
        replace ((0 <=? Z.of_nat m) && (Z.of_nat m <? Z.of_nat (S m))) with true
          by (symmetry; apply andb_true_iff; split; lia).
        eexists; split; [reflexivity|]. intro j. unfold Recursion.upd. rewrite (Hi j).
        destruct (Z.eqb_spec j (Z.of_nat (S m))).
        * subst j. replace ((0 <=? Z.of_nat (S m)) && (Z.of_nat (S m) <? Z.of_nat (S (S m)))) with true
            by (symmetry; apply andb_true_iff; split; lia).
          rewrite !Nat2Z.id. reflexivity.
        * brk.
  Qed.

  Lemma chain_result : forall n k, (k < n)%nat ->
    result_of A T bot (chain n) (Z.of_nat k) = Some (Tn (S k) bot).
  Proof.
    intros n k H. unfold result_of. destruct (exec_chain n) as [s [He Hi]]. rewrite He, (Hi (Z.of_nat k)).
    replace ((0 <=? Z.of_nat k) && (Z.of_nat k <? Z.of_nat n)) with true
      by (symmetry; apply andb_true_iff; split; lia).
    now rewrite Nat2Z.id.
  Qed.

  Lemma vertical_plan_chain : forall depth, 0 <= depth ->
    vertical_plan depth = chain (S (Z.to_nat depth)).
  Proof.
    intros depth H. unfold vertical_plan, chain, zrange, vertical_range, vertical_defines, vertical_uses.
    rewrite Z.sub_0_r. simpl seq. simpl map at 3. f_equal. rewrite <- seq_shift, !map_map.
    apply map_ext. intro k. replace (0 + Z.of_nat k + 1) with (Z.of_nat (S k)) by lia.
    replace (0 + Z.of_nat k) with (Z.of_nat k) by lia. reflexivity.
  Qed.

  (* vertical chain: P = P_r<depth> is T applied depth+1 times to nil *)
  Theorem vertical_is_iterate : forall depth, 0 <= depth ->
    vertical A T bot depth = Some (Tn (S (Z.to_nat depth)) bot).
  Proof.
    intros depth H. unfold vertical. rewrite vertical_plan_chain by assumption.
    unfold vertical_result. rewrite <- (Z2Nat.id depth) at 2 by assumption.
    apply chain_result. lia.
  Qed.

  Lemma flat_plan_chain : forall depth, 0 <= depth -> flat_plan depth = chain (S (Z.to_nat depth)).
  Proof.
    intros depth H. unfold flat_plan, chain, zrange, flat_range, flat_has_prev, flat_prev.
    replace (Z.to_nat (depth + 1 - 0)) with (S (Z.to_nat depth)) by lia.
    rewrite map_map. apply map_ext. intro k. simpl. f_equal. destruct k.
    - reflexivity.
    - replace (0 <? Z.of_nat (S k)) with true by (symmetry; apply Z.ltb_lt; lia). f_equal. lia.
  Qed.

  (* flat chain: every member's P_fr<depth> is generation depth+1 of the simultaneous iteration *)
  Theorem flat_is_iterate : forall depth, 0 <= depth ->
    flat A T bot depth = Some (Tn (S (Z.to_nat depth)) bot).
  Proof.
    intros depth H. unfold flat. rewrite flat_plan_chain by assumption.
    unfold flat_result. rewrite <- (Z2Nat.id depth) at 2 by assumption.
    apply chain_result. lia.
  Qed.

  (* ---- iterative plan ---- *)
  Lemma table_of_own : forall g i, i <> g - 2 -> table_of g i = i.
  Proof.
    intros. unfold table_of, iter_own_table, iter_inset. destruct (Z.eqb_spec i (g - 2)); [lia|reflexivity].
  Qed.
  Lemma table_of_shared : forall g, table_of g (g - 2) = g - 4.
  Proof.
    intros. unfold table_of, iter_own_table, iter_inset, iter_shared_table. rewrite Z.eqb_refl. simpl. lia.
  Qed.

  Lemma ignition_phase : forall g, 4 <= g ->
    map (iter_step g) (zrange 0 (iter_upper g)) = chain (Z.to_nat (g - 3)).
  Proof.
    intros g H. unfold chain, zrange, iter_upper, iter_inset.
    replace (g - 2 - 1 - 0) with (g - 3) by lia. rewrite map_map. apply map_ext_in.
    intros k Hk. apply in_seq in Hk. unfold iter_step, iter_has_prev, iter_prev.
    rewrite table_of_own by lia. simpl. f_equal. destruct k.
    - reflexivity.
    - replace (0 <? Z.of_nat (S k)) with true by (symmetry; apply Z.ltb_lt; lia).
      rewrite table_of_own by lia. f_equal. lia.
  Qed.

  Lemma block_eq : forall g, 4 <= g -> block g = [(g - 3, Some (g - 4)); (g - 4, Some (g - 3))].
  Proof.
    intros g H. unfold block, iter_step, iter_upper, iter_lower, iter_inset, iter_has_prev, iter_prev.
    replace (0 <? g - 2 - 1) with true by (symmetry; apply Z.ltb_lt; lia).
    replace (0 <? g - 2) with true by (symmetry; apply Z.ltb_lt; lia).
    rewrite (table_of_own g (g - 2 - 1)) by lia. rewrite (table_of_own g (g - 2 - 1 - 1)) by lia.
    rewrite table_of_shared.
    replace (g - 2 - 1) with (g - 3) by lia. replace (g - 3 - 1) with (g - 4) by lia. reflexivity.
  Qed.

  Lemma block_once : forall g (s : store) v, 4 <= g -> s (g - 4) = Some v ->
    exists s', exec s (block g) = Some s' /\ s' (g - 4) = Some (T (T v)).
  Proof.
    intros g s v H Hs. rewrite block_eq by assumption.
    cbv beta iota delta [Recursion.exec Recursion.exec1 snd fst]. rewrite Hs.
    assert (Recursion.upd A s (g - 3) (T v) (g - 3) = Some (T v)) as E
      by (unfold Recursion.upd; now rewrite Z.eqb_refl).
    rewrite E. eexists; split; [reflexivity|]. unfold Recursion.upd. now rewrite Z.eqb_refl.
  Qed.

  Lemma block_run : forall g r (s : store) v, 4 <= g -> s (g - 4) = Some v ->
    exists s', exec s (concat (repeat (block g) r)) = Some s' /\ s' (g - 4) = Some (Tn (2 * r) v).
  Proof.
    intros g r. induction r; intros s v H Hs.
    - exists s. split; [reflexivity|assumption].
    - change (concat (repeat (block g) (S r))) with (block g ++ concat (repeat (block g) r)).
      rewrite exec_app. destruct (block_once g s v H Hs) as [s1 [He1 Hv1]]. rewrite He1.
      destruct (IHr s1 (T (T v)) H Hv1) as [s' [He Hv]].
      exists s'. split; [exact He|]. rewrite Hv. f_equal.
      replace (2 * S r)%nat with (2 * r + 2)%nat by lia. rewrite Tn_add. reflexivity.
  Qed.

  Lemma final_phase : forall g, 4 <= g ->
    map (iter_step g) (zrange (iter_lower g + 1) (iter_range g)) = [(g - 1, Some (g - 4))].
  Proof.
    intros g H. unfold zrange, iter_lower, iter_range, iter_inset.
    replace (Z.to_nat (g - (g - 2 + 1))) with 1%nat by lia. simpl.
    unfold iter_step, iter_has_prev, iter_prev.
    replace (0 <? g - 2 + 1 + 0) with true by (symmetry; apply Z.ltb_lt; lia).
    rewrite (table_of_own g (g - 2 + 1 + 0)) by lia.
    replace (g - 2 + 1 + 0 - 1) with (g - 2) by lia. rewrite table_of_shared.
    replace (g - 2 + 1 + 0) with (g - 1) by lia. reflexivity.
  Qed.

  (* the iterative plan performs  ignition - 2 + 2 * max(repetitions, 1)  applications *)
  Theorem iterative_count : forall depth g, 4 <= g ->
    iterative A T bot depth g =
    Some (Tn (Z.to_nat (g - 2 + 2 * Z.max (repetitions depth g) 1)) bot).
  Proof.
    intros depth g H. unfold iterative, result_of, iter_plan.
    rewrite ignition_phase by assumption. rewrite !exec_app.
    destruct (exec_chain (Z.to_nat (g - 3))) as [s1 [He1 Hi1]]. rewrite He1.
    set (r := Z.to_nat (Z.max (repetitions depth g) 1)).
    assert (s1 (g - 4) = Some (Tn (Z.to_nat (g - 3)) bot)) as Hs1.
    { rewrite (Hi1 (g - 4)).
      replace ((0 <=? g - 4) && (g - 4 <? Z.of_nat (Z.to_nat (g - 3)))) with true
        by (symmetry; apply andb_true_iff; split; lia).
      f_equal. f_equal. lia. }
    rewrite exec_app. destruct (block_run g r s1 _ H Hs1) as [s2 [He2 Hs2]]. rewrite He2.
    rewrite final_phase by assumption.
    cbv beta iota delta [Recursion.exec Recursion.exec1 snd fst]. rewrite Hs2.
    unfold iter_result. rewrite (table_of_own g (g - 1)) by lia. unfold Recursion.upd.
    rewrite Z.eqb_refl. f_equal.
    change (T (Tn (2 * r) (Tn (Z.to_nat (g - 3)) bot))) with (Tn (S (2 * r)) (Tn (Z.to_nat (g - 3)) bot)).
    rewrite <- Tn_add. f_equal. unfold r. lia.
  Qed.

  (* ... which is depth + 1 when the ignition fits into the depth and has the right parity *)
  Theorem iterative_is_iterate : forall depth g, 4 <= g ->
    g <= depth + 1 -> ignition_bump g depth = false ->
    iterative A T bot depth g = Some (Tn (S (Z.to_nat depth)) bot).
  Proof.
    intros depth g H Hle Hpar. rewrite iterative_count by assumption. f_equal. f_equal.
    unfold ignition_bump in Hpar. apply Z.eqb_neq in Hpar. unfold repetitions. lia.
  Qed.

  (* the parity is what UnfoldRecursions establishes for its own choice of ignition *)
  Lemma ignition_parity : forall cover depth, ignition_bump (ignition_of cover depth) depth = false.
  Proof.
    intros. unfold ignition_of. destruct (ignition_bump (ignition_base cover) depth) eqn:E; [|exact E].
    unfold ignition_bump, ignition_bump_by in *. apply Z.eqb_eq in E. apply Z.eqb_neq. lia.
  Qed.

  Lemma ignition_bounds : forall cover depth, 1 <= cover ->
    4 <= ignition_of cover depth <= cover + 4.
  Proof.
    intros. unfold ignition_of, ignition_base, ignition_bump_by.
    destruct (ignition_bump (cover + 3) depth); lia.
  Qed.

  (* compiler-chosen ignition: exact whenever the cover is small enough for the depth *)
  Theorem iterative_default_ignition : forall cover depth, 1 <= cover -> cover + 3 <= depth ->
    iterative A T bot depth (ignition_of cover depth) = Some (Tn (S (Z.to_nat depth)) bot).
  Proof.
    intros cover depth Hc Hd. pose proof (ignition_bounds cover depth Hc).
    apply iterative_is_iterate; [lia| |apply ignition_parity]. lia.
  Qed.

  (* depths above the threshold switch to the iterative plan by themselves: exact for covers of
     up to threshold - 2 predicates (18 today), whatever the threshold is *)
  Corollary iterative_above_threshold : forall cover depth,
    iterative_threshold < depth -> 1 <= cover <= iterative_threshold - 2 ->
    iterative A T bot depth (ignition_of cover depth) = Some (Tn (S (Z.to_nat depth)) bot).
  Proof.
    intros cover depth Ht Hc. apply iterative_default_ignition; lia.
  Qed.
End Proofs.

(* the hypothesis  ignition <= depth + 1  is not guaranteed by the code: with an explicit small
   depth and iterative: true the plan overshoots.  Witness: one predicate, depth 2. *)
Theorem iterative_small_depth_refuted :
  exists cover depth, 1 <= cover /\ 0 <= depth /\
    iterative nat S O depth (ignition_of cover depth) <> Some (Tn nat S (S (Z.to_nat depth)) O).
Proof.
  exists 1, 2. split; [lia|]. split; [lia|]. vm_compute. discriminate.
Qed.

Example iterative_small_depth_value : iterative nat S O 2 (ignition_of 1 2) = Some 5%nat.
Proof. vm_compute. reflexivity. Qed.

(* the default depth of the source *)
Lemma defaults : default_depth = 8.
Proof. reflexivity. Qed.
