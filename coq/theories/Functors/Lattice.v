(* C03 — bounded iteration versus the least fixpoint, for a monotone operator on a product of
   partial orders with a least element (one component per member of the recursive component:
   sets of rows ordered by inclusion, or shortest distances ordered by "at least as good").
   Everything here is for all operators, orders and schedules; no finiteness is assumed. *)
From Coq Require Import List Arith Lia.
Import ListNotations.

Section Lattice.
  Variable S : Type.
  Variable le : S -> S -> Prop.
  Hypothesis le_refl : forall a, le a a.
  Hypothesis le_trans : forall a b c, le a b -> le b c -> le a c.
  Variable bot : S.
  Hypothesis bot_le : forall a, le bot a.

  Variable I : Type.                           (* the members of the recursive component *)
  Definition st := I -> S.
  Definition sle (x y : st) : Prop := forall i, le (x i) (y i).
  Definition bots : st := fun _ => bot.

  Variable T : st -> st.                       (* one simultaneous application of all the rules *)
  Hypothesis T_mono : forall x y, sle x y -> sle (T x) (T y).

  Fixpoint iterT (n : nat) : st := match n with O => bots | Datatypes.S k => T (iterT k) end.

  Lemma sle_refl : forall x, sle x x.
  Proof. intros x i. apply le_refl. Qed.
  Lemma sle_trans : forall x y z, sle x y -> sle y z -> sle x z.
  Proof. intros x y z H1 H2 i. eapply le_trans; [apply H1|apply H2]. Qed.

  (* mu is a least fixpoint: closed under T and below every T-closed state *)
  Definition closed (x : st) : Prop := sle (T x) x.
  Definition is_lfp (mu : st) : Prop := closed mu /\ forall x, closed x -> sle mu x.

  Theorem iterate_below_closed : forall x, closed x -> forall n, sle (iterT n) x.
  Proof.
    intros x Hx. induction n.
    - intro i. apply bot_le.
    - simpl. eapply sle_trans; [apply T_mono, IHn|exact Hx].
  Qed.

  Theorem iterate_increasing : forall n, sle (iterT n) (iterT (Datatypes.S n)).
  Proof.
    induction n.
    - intro i. apply bot_le.
    - simpl. apply T_mono. exact IHn.
  Qed.

  Lemma iterate_mono : forall n m, n <= m -> sle (iterT n) (iterT m).
  Proof.
    intros n m H. induction H as [|m H IH]; [apply sle_refl|]. eapply sle_trans; [exact IH|apply iterate_increasing].
  Qed.

  (* once the iteration is stationary it is the least fixpoint (up to the order: below every
     closed state and itself closed) *)
  Theorem stationary_is_lfp : forall k, sle (iterT (Datatypes.S k)) (iterT k) -> is_lfp (iterT k).
  Proof.
    intros k H. split; [exact H|]. intros x Hx. apply iterate_below_closed. exact Hx.
  Qed.

  Corollary stationary_stays : forall k, sle (iterT (Datatypes.S k)) (iterT k) ->
    forall n, k <= n -> sle (iterT n) (iterT k).
  Proof.
    intros k H n Hn. apply iterate_below_closed. exact H.
  Qed.

  (* ---- chaotic (Gauss-Seidel) iteration ----
     An update recomputes the components selected by U from the current state and keeps the
     others.  A round is any list of updates that selects every component at least once.  This is
     what the vertical unfolding of a cover with several members does in one step (the cut
     predicate is recomputed through freshly recomputed copies of the other members), and what
     the in-place (diamond) plan does in one repetition. *)
  Definition update (U : I -> bool) (x : st) : st := fun i => if U i then T x i else x i.
  Fixpoint run (us : list (I -> bool)) (x : st) : st :=
    match us with [] => x | U :: t => run t (update U x) end.
  Definition covers (us : list (I -> bool)) : Prop := forall i, exists U, In U us /\ U i = true.
  Fixpoint rounds (rs : list (list (I -> bool))) (x : st) : st :=
    match rs with [] => x | r :: t => rounds t (run r x) end.

  Definition inflating (x : st) : Prop := sle x (T x).

  Lemma update_above : forall U x, inflating x -> sle x (update U x).
  Proof. intros U x Hx i. unfold update. destruct (U i); [apply Hx|apply le_refl]. Qed.

  Lemma update_inflating : forall U x, inflating x -> inflating (update U x).
  Proof.
    intros U x Hx i. pose proof (T_mono _ _ (update_above U x Hx) i) as H.
    unfold update at 1. destruct (U i); [exact H|]. eapply le_trans; [apply Hx|exact H].
  Qed.

  Lemma update_below : forall U x mu, closed mu -> sle x mu -> sle (update U x) mu.
  Proof.
    intros U x mu Hmu Hx i. unfold update. destruct (U i); [|apply Hx].
    eapply le_trans; [apply (T_mono _ _ Hx)|apply Hmu].
  Qed.

  Lemma run_above : forall us x, inflating x -> sle x (run us x) /\ inflating (run us x).
  Proof.
    induction us as [|U t IH]; intros x Hx; simpl.
    - split; [apply sle_refl|exact Hx].
    - destruct (IH (update U x) (update_inflating U x Hx)) as [H1 H2]. split; [|exact H2].
      eapply sle_trans; [apply update_above; exact Hx|exact H1].
  Qed.

  Lemma run_below : forall us x mu, closed mu -> sle x mu -> sle (run us x) mu.
  Proof.
    induction us as [|U t IH]; intros x mu Hmu Hx; simpl; [exact Hx|].
    apply IH; [exact Hmu|]. apply update_below; assumption.
  Qed.

  (* a component selected somewhere in the run ends at least as high as T of anything that was
     below the starting state *)
  Lemma run_gains : forall us x z i, inflating x -> sle z x ->
    (exists U, In U us /\ U i = true) -> le (T z i) (run us x i).
  Proof.
    induction us as [|U t IH]; intros x z i Hx Hz [U0 [Hin Hi]]; [destruct Hin|].
    simpl. destruct Hin as [Heq|Hin].
    - subst U0. destruct (run_above t (update U x) (update_inflating U x Hx)) as [Hab _].
      eapply le_trans; [|apply Hab]. unfold update. rewrite Hi. apply (T_mono _ _ Hz).
    - apply IH.
      + apply update_inflating; exact Hx.
      + eapply sle_trans; [exact Hz|apply update_above; exact Hx].
      + exists U0. split; assumption.
  Qed.

  (* n rounds started from the empty state lie between the n-th simultaneous iterate and every
     closed state, in particular the least fixpoint *)
  Theorem chaotic_between : forall rs, Forall covers rs ->
    sle (iterT (length rs)) (rounds rs bots) /\
    forall mu, closed mu -> sle (rounds rs bots) mu.
  Proof.
    intros rs Hrs.
    assert (forall rs x n, Forall covers rs -> inflating x -> sle (iterT n) x ->
            sle (iterT (length rs + n)) (rounds rs x)) as Low.
    { clear rs Hrs. induction rs as [|r t IH]; intros x n Hc Hx Hn; [exact Hn|].
      inversion Hc as [|? ? Hr Ht]; subst.
      destruct (run_above r x Hx) as [_ Hinf].
      change (sle (iterT (Datatypes.S (length t) + n)) (rounds t (run r x))).
      replace (Datatypes.S (length t) + n) with (length t + Datatypes.S n) by lia.
      apply IH; [exact Ht|exact Hinf|]. change (sle (T (iterT n)) (run r x)). intro i.
      apply run_gains; [exact Hx|exact Hn|apply Hr]. }
    assert (forall rs x mu, closed mu -> sle x mu -> sle (rounds rs x) mu) as High.
    { clear rs Hrs Low. induction rs as [|r t IH]; intros x mu Hmu Hx; simpl; [exact Hx|].
      apply IH; [exact Hmu|]. apply run_below; assumption. }
    split.
    - replace (length rs) with (length rs + 0) by lia. apply Low; [exact Hrs| |apply sle_refl].
      intro i. apply bot_le.
    - intros mu Hmu. apply High; [exact Hmu|]. intro i. apply bot_le.
  Qed.

  (* hence equal to the least fixpoint (in the order) as soon as the simultaneous iteration is
     stationary within the number of rounds *)
  Corollary chaotic_reaches_lfp : forall rs k, Forall covers rs -> k <= length rs ->
    sle (iterT (Datatypes.S k)) (iterT k) ->
    sle (iterT k) (rounds rs bots) /\ sle (rounds rs bots) (iterT k).
  Proof.
    intros rs k Hrs Hk Hst. destruct (chaotic_between rs Hrs) as [Hlo Hhi]. split.
    - eapply sle_trans; [apply iterate_mono; exact Hk|exact Hlo].
    - apply Hhi. exact Hst.
  Qed.
End Lattice.
