(* C03 — the three unfolding strategies of compiler/dialect_libraries/recursion_library.py as
   plans over generations of the recursive component, with every index / bound / formula taken
   from the GENERATED file gen/RecursionParams.v (regenerated from the source on every run).

   A plan is a list of instructions "table t := T(table r)" or "table t := T(nil)"; T is one
   simultaneous application of the rules of the component (an arbitrary function on an arbitrary
   state type).  Vertical and flat chains are read off the generated `X_r<i> := ...` /
   `X_fr<i> := ...` lines.  For the iterative plan the order of execution is the documented
   assumption about Concertina (C14): every member once, in index order, the @Iteration block
   [upper; lower] repeated max(repetitions, 1) times where it stands, tables shared as @Ground says. *)
From Coq Require Import List ZArith Bool Lia.
Import ListNotations.
From LVGen Require Import RecursionParams.
Open Scope Z_scope.

Section Plans.
  Variable A : Type.
  Variable T : A -> A.
  Variable bot : A.

  Fixpoint Tn (n : nat) (x : A) : A := match n with O => x | S k => T (Tn k x) end.

  Definition instr := (Z * option Z)%type.      (* table written, table read (None = nil) *)
  Definition store := Z -> option A.
  Definition empty : store := fun _ => None.
  Definition upd (s : store) (k : Z) (v : A) : store := fun j => if j =? k then Some v else s j.
  Definition exec1 (s : store) (i : instr) : option store :=
    match snd i with
    | None => Some (upd s (fst i) (T bot))
    | Some r => match s r with Some v => Some (upd s (fst i) (T v)) | None => None end
    end.
  Fixpoint exec (s : store) (l : list instr) : option store :=
    match l with
    | [] => Some s
    | i :: t => match exec1 s i with Some s' => exec s' t | None => None end
    end.
  (* None = the plan reads a table that was never written *)
  Definition result_of (l : list instr) (k : Z) : option A :=
    match exec empty l with Some s => s k | None => None end.

  Definition zrange (a b : Z) : list Z := map (fun k => a + Z.of_nat k) (seq 0 (Z.to_nat (b - a))).

  (* GetRecursionFunctor(depth) *)
  Definition vertical_plan (depth : Z) : list instr :=
    (0, None) :: map (fun i => (vertical_defines i, Some (vertical_uses i))) (zrange 0 (vertical_range depth)).
  Definition vertical (depth : Z) : option A := result_of (vertical_plan depth) (vertical_result depth).

  (* GetFlatRecursionFunctor(depth, ...) : the same chain for every member of the cover *)
  Definition flat_plan (depth : Z) : list instr :=
    map (fun i => (i, if flat_has_prev i then Some (flat_prev i) else None)) (zrange 0 (flat_range depth)).
  Definition flat (depth : Z) : option A := result_of (flat_plan depth) (flat_result depth).

  (* GetFlatIterativeRecursionFunctor(depth, ..., ignition_steps = g, ...) *)
  Definition table_of (g i : Z) : Z := if iter_own_table g i then i else iter_shared_table i.
  Definition iter_step (g i : Z) : instr :=
    (table_of g i, if iter_has_prev i then Some (table_of g (iter_prev i)) else None).
  Definition block (g : Z) : list instr := [iter_step g (iter_upper g); iter_step g (iter_lower g)].
  Definition iter_plan (g reps : Z) : list instr :=
    map (iter_step g) (zrange 0 (iter_upper g)) ++
    concat (repeat (block g) (Z.to_nat (Z.max reps 1))) ++
    map (iter_step g) (zrange (iter_lower g + 1) (iter_range g)).
  Definition iterative (depth g : Z) : option A :=
    result_of (iter_plan g (repetitions depth g)) (table_of g (iter_result g)).

  (* Functors.UnfoldRecursions: ignition steps chosen for a cover of the given size *)
  Definition ignition_of (cover depth : Z) : Z :=
    let g := ignition_base cover in if ignition_bump g depth then g + ignition_bump_by else g.
End Plans.
