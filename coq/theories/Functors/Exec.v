(* C04 — entry points used by props/c04.py to run the model of MakeAll inside Coq (vm_compute),
   and the free (symbolic) semantics: the meaning of a predicate is the tree of its unfolding.
   The free semantics satisfies locality and renaming (proved below), so it is an instance of the
   Section hypotheses of Functors/Functor.v; it is also the most discriminating one, which makes
   [verify] a per-instance check of the conclusion of clone_sound on the model's output. *)
From Coq Require Import List Bool NArith.
Import ListNotations.
From LV Require Import Functors.Program.

Inductive tree : Type :=
| Leaf : pred -> tree                       (* a predicate without rules *)
| Node : list (nat * list tree) -> tree     (* one entry per rule: body id, meaning of each occurrence *)
| Out : tree.                               (* out of fuel *)

Definition free_gsem (bs : list rbody) (e : pred -> tree) : tree :=
  Node (map (fun b => (snd b, map e (fst b))) bs).

Lemma free_local : forall bs e1 e2,
  (forall b u, In b bs -> In u (fst b) -> e1 u = e2 u) -> free_gsem bs e1 = free_gsem bs e2.
Proof.
  intros bs e1 e2 H. unfold free_gsem. f_equal. apply map_ext_in. intros b Hb. f_equal.
  apply map_ext_in. intros u Hu. eapply H; eauto.
Qed.

Lemma free_rename : forall bs f e,
  free_gsem (map (ren_body f) bs) e = free_gsem bs (fun u => e (f u)).
Proof.
  intros. unfold free_gsem. f_equal. rewrite map_map. apply map_ext. intros b. unfold ren_body. simpl.
  f_equal. now rewrite map_map.
Qed.

(* equality of unfoldings; the rules of one predicate are compared as a multiset (their order in
   the rule list is irrelevant for the union of bags and for aggregation, and functors.py appends
   clones sorted by their text) *)
Fixpoint tree_eqb (a b : tree) {struct a} : bool :=
  match a, b with
  | Leaf p, Leaf q => N.eqb p q
  | Out, Out => true
  | Node l, Node l' =>
    (fix go (l : list (nat * list tree)) (l' : list (nat * list tree)) {struct l} : bool :=
       match l with
       | [] => match l' with [] => true | _ => false end
       | (i, ts) :: r =>
         match
           (fix pick (pre l' : list (nat * list tree)) {struct l'} : option (list (nat * list tree)) :=
              match l' with
              | [] => None
              | (j, ts') :: q =>
                if Nat.eqb i j &&
                   (fix go2 (ts : list tree) (ts' : list tree) {struct ts} : bool :=
                      match ts, ts' with
                      | [], [] => true
                      | t :: u, t' :: u' => tree_eqb t t' && go2 u u'
                      | _, _ => false
                      end) ts ts'
                then Some (rev_append pre q) else pick ((j, ts') :: pre) q
              end) [] l'
         with
         | Some rest => go r rest
         | None => false
         end
       end) l l'
  | _, _ => false
  end.

Fixpoint has_out (t : tree) : bool :=
  match t with
  | Out => true
  | Leaf _ => false
  | Node l => existsb (fun e => existsb has_out (snd e)) l
  end.

Definition fden := den tree Leaf free_gsem Out.
Definition fden_ov := den_ov tree Leaf free_gsem Out.

(* for the application N := F(s) in the final program Pf: the meaning of N is the meaning of F with
   the arguments redefined (values read in Pf), and neither side ran out of fuel *)
Definition verify (Pf : program) (mk : make) : bool :=
  let '(N, F, s) := mk in
  let n := S (length Pf) in
  let a := fden n Pf N in
  let b := fden_ov s (fden n Pf) n Pf F in
  tree_eqb a b && negb (has_out a).

Open Scope N_scope.
Definition flat_rule (r : rule) : list N :=
  head r :: N.of_nat (body r) :: N.of_nat (length (uses r)) :: uses r.

(* clone names: X_f<n> is encoded as base + X * width + n (base = number of interned names,
   width > number of functor applications); the harness decodes.
   Output: 0, error code | 1, k, k verification bits, flattened rules *)
Definition run_flat (base width : N) (ann : list pred) (P : program)
                    (ms : list make) (consts : list rule) : list N :=
  match make_all (fun q n => base + q * width + N.of_nat n) ann P ms consts with
  | Err e => [0; N.of_nat e]
  | Ok P' => 1 :: N.of_nat (length ms) ::
             map (fun m => if verify P' m then 1 else 0) ms ++ concat (map flat_rule P')
  end.

(* The same symbolic check applied to the rule list the IMPLEMENTATION produced (independent of the
   cloning / sharing policy of the model): every N := F(s) means F with its arguments redefined,
   and every listed original predicate has the same unfolding before and after. *)
Definition unchanged (Ppre Ppost : program) (p : pred) : bool :=
  let n := S (length Ppost) in
  tree_eqb (fden n Ppost p) (fden n Ppre p) && negb (has_out (fden n Ppost p)).
Definition verify_real (Ppre Ppost : program) (ms : list make) (origs : list pred) : list N :=
  map (fun m => if verify Ppost m then 1 else 0) ms ++
  map (fun p => if unchanged Ppre Ppost p then 1 else 0) origs.
