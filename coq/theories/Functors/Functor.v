(* C04 — proofs about Functors/Program.v.
   The semantics of a group of rule bodies is a Section variable [gsem] with two Section
   hypotheses (no global axiom):
     locality : gsem bs e depends on e only at the predicates occurring in bs;
     renaming : renaming the predicate occurrences of bs by f is the same as reading the
                environment through f.
   Both hold for any rule language whose meaning is compositional in the denotations of the
   predicate occurrences (see the positional instance in Props/C04.v). *)
From Coq Require Import List Bool Arith NArith Lia.
Import ListNotations.
From LV Require Import Functors.Program.

Section Laws.
  Variable rel : Type.
  Variable ext : pred -> rel.
  Variable gsem : list rbody -> (pred -> rel) -> rel.
  Hypothesis gsem_local : forall bs e1 e2,
    (forall b u, In b bs -> In u (fst b) -> e1 u = e2 u) -> gsem bs e1 = gsem bs e2.
  Hypothesis gsem_rename : forall bs f e,
    gsem (map (ren_body f) bs) e = gsem bs (fun u => e (f u)).

  Notation pden := (pden rel ext gsem).
  Notation is_model := (is_model rel ext gsem).
  Notation pden_ov := (pden_ov rel ext gsem).
  Notation is_model_ov := (is_model_ov rel ext gsem).
  Notation den := (den rel ext gsem).

  Lemma in_rules_of : forall P p r, In r (rules_of P p) <-> In r P /\ head r = p.
  Proof.
    intros. unfold rules_of. rewrite filter_In. rewrite N.eqb_eq. tauto.
  Qed.

  Lemma in_bodies : forall P p b, In b (bodies P p) -> exists r, In r P /\ head r = p /\ rb r = b.
  Proof.
    unfold bodies. intros P p b H. apply in_map_iff in H. destruct H as [r [Hb Hr]].
    apply in_rules_of in Hr. exists r. tauto.
  Qed.

  Lemma pden_local : forall P e1 e2 p,
    (forall r u, In r P -> head r = p -> In u (uses r) -> e1 u = e2 u) ->
    pden P e1 p = pden P e2 p.
  Proof.
    intros P e1 e2 p H. unfold Program.pden.
    destruct (bodies P p) eqn:Hb; [reflexivity|].
    apply gsem_local. intros b u Hin Hu. rewrite <- Hb in Hin.
    apply in_bodies in Hin. destruct Hin as [r0 [Hr [Hh Hrb]]]. subst b. simpl in Hu.
    eapply H; eauto.
  Qed.

  Lemma rules_of_nil : forall X p, ~ In p (heads X) -> rules_of X p = [].
  Proof.
    induction X as [|r X IH]; intros p H; [reflexivity|]. simpl in *.
    destruct (head r =? p)%N eqn:E.
    - apply N.eqb_eq in E. exfalso. apply H. now left.
    - apply IH. intro. apply H. now right.
  Qed.

  Lemma bodies_app : forall P X p, bodies (P ++ X) p = bodies P p ++ bodies X p.
  Proof. intros. unfold bodies, rules_of. rewrite filter_app, map_app. reflexivity. Qed.

  Lemma pden_app_old : forall P X E p, ~ In p (heads X) -> pden (P ++ X) E p = pden P E p.
  Proof.
    intros. unfold Program.pden. rewrite bodies_app. unfold bodies at 2.
    rewrite (rules_of_nil X p H). simpl. rewrite app_nil_r. reflexivity.
  Qed.

  (* ---- acyclic programs have exactly one meaning ---- *)
  Section Ranked.
    Variable rk : pred -> nat.
    Variable P : program.
    Hypothesis Hrk : ranked rk P.

    Lemma model_unique : forall E1 E2, is_model P E1 -> is_model P E2 -> forall p, E1 p = E2 p.
    Proof.
      intros E1 E2 H1 H2.
      assert (forall n p, rk p < n -> E1 p = E2 p) as A.
      { induction n; intros p Hp; [lia|].
        rewrite (H1 p), (H2 p). apply pden_local. intros r u Hr Hh Hu.
        apply IHn. pose proof (Hrk r Hr u Hu). subst p. lia. }
      intro p. apply (A (S (rk p))). lia.
    Qed.

    Lemma den_stable : forall d n m p, rk p < n -> rk p < m -> den d n P p = den d m P p.
    Proof.
      intros d. induction n; intros m p Hn Hm; [lia|]. destruct m; [lia|]. simpl.
      apply pden_local. intros r u Hr Hh Hu. pose proof (Hrk r Hr u Hu). subst p.
      apply IHn; lia.
    Qed.

    Lemma model_exists : forall d, is_model P (fun p => den d (S (rk p)) P p).
    Proof.
      intros d p. simpl. apply pden_local. intros r u Hr Hh Hu.
      pose proof (Hrk r Hr u Hu). subst p.
      change (pden P (den d (rk u) P) u) with (den d (S (rk u)) P u).
      apply den_stable; lia.
    Qed.

    Lemma model_ov_unique : forall s base E1 E2,
      is_model_ov P s base E1 -> is_model_ov P s base E2 -> forall p, E1 p = E2 p.
    Proof.
      intros s base E1 E2 H1 H2.
      assert (forall n p, rk p < n -> E1 p = E2 p) as A.
      { induction n; intros p Hp; [lia|].
        rewrite (H1 p), (H2 p). unfold Program.pden_ov. destruct (lookup s p); [reflexivity|].
        apply pden_local. intros r u Hr Hh Hu.
        apply IHn. pose proof (Hrk r Hr u Hu). subst p. lia. }
      intro p. apply (A (S (rk p))). lia.
    Qed.

    (* [old X x]: x is not defined by the added rules X and does not depend on anything they define *)
    Definition old (X : program) (x : pred) : Prop :=
      ~ In x (heads X) /\ forall h, In h (heads X) -> ~ Reach P x h.

    Lemma old_use : forall X r u, In r P -> In u (uses r) -> old X (head r) -> old X u.
    Proof.
      intros X r u Hr Hu [_ H2]. split.
      - intro Hin. apply (H2 u Hin). econstructor; eauto.
      - intros h Hh Hre. apply (H2 h Hh). eapply ReachS; eauto.
    Qed.

    (* adding rules for new predicates does not change the meaning of the old ones *)
    Theorem conservative : forall X E E',
      is_model P E -> is_model (P ++ X) E' -> forall p, old X p -> E' p = E p.
    Proof.
      intros X E E' H H'.
      assert (forall n p, rk p < n -> old X p -> E' p = E p) as A.
      { induction n; intros p Hp Hold; [lia|].
        rewrite (H' p), (H p). rewrite pden_app_old by apply Hold.
        apply pden_local. intros r u Hr Hh Hu. subst p. apply IHn.
        - pose proof (Hrk r Hr u Hu). lia.
        - eapply old_use; eauto. }
      intros p. apply (A (S (rk p))). lia.
    Qed.

    (* a predicate that does not depend on any redefined predicate keeps its meaning *)
    Theorem ov_unaffected : forall s base E Es,
      is_model P E -> is_model_ov P s base Es ->
      forall p, lookup s p = None -> (forall a, lookup s a <> None -> ~ Reach P p a) -> Es p = E p.
    Proof.
      intros s base E Es H Hs.
      assert (forall n p, rk p < n -> lookup s p = None ->
                          (forall a, lookup s a <> None -> ~ Reach P p a) -> Es p = E p) as A.
      { induction n; intros p Hp Hl Hun; [lia|].
        rewrite (Hs p), (H p). unfold Program.pden_ov. rewrite Hl.
        apply pden_local. intros r u Hr Hh Hu. subst p. apply IHn.
        - pose proof (Hrk r Hr u Hu). lia.
        - destruct (lookup s u) eqn:El; [|reflexivity]. exfalso.
          apply (Hun u); [congruence|]. econstructor; eauto.
        - intros a Ha Hre. apply (Hun a Ha). eapply ReachS; eauto. }
      intros p. apply (A (S (rk p))). lia.
    Qed.

    (* the meaning of p under a redefinition depends only on the bindings of p itself and of the
       predicates p depends on: this is what makes CallKey a sound cache key *)
    Theorem ov_relevant : forall s1 b1 E1 s2 b2 E2,
      is_model_ov P s1 b1 E1 -> is_model_ov P s2 b2 E2 ->
      forall p,
      (forall x, x = p \/ Reach P p x -> option_map b1 (lookup s1 x) = option_map b2 (lookup s2 x)) ->
      E1 p = E2 p.
    Proof.
      intros s1 b1 E1 s2 b2 E2 H1 H2.
      assert (forall n p, rk p < n ->
        (forall x, x = p \/ Reach P p x -> option_map b1 (lookup s1 x) = option_map b2 (lookup s2 x)) ->
        E1 p = E2 p) as A.
      { induction n; intros p Hp Hag; [lia|].
        rewrite (H1 p), (H2 p). unfold Program.pden_ov.
        pose proof (Hag p (or_introl eq_refl)) as Hp0.
        destruct (lookup s1 p), (lookup s2 p); simpl in Hp0; try discriminate.
        - now injection Hp0.
        - apply pden_local. intros r u Hr Hh Hu. subst p. apply IHn.
          + pose proof (Hrk r Hr u Hu). lia.
          + intros x [Hx|Hx]; apply Hag; right.
            * subst x. econstructor; eauto.
            * eapply ReachS; eauto. }
      intros p. apply (A (S (rk p))). lia.
    Qed.

    (* ---- one functor application ----
       s  : the bindings  A_i |-> B_i
       m  : the extended map (bindings, applicant |-> new name, intermediate |-> clone name)
       cl : the predicates whose rules are copied
       X  : the rules added to the program. *)
    Section Clone.
      Variables (s m : ren) (cl : list pred) (X : program).
      Variables (E E' Es : pred -> rel).
      Hypothesis HE : is_model P E.
      Hypothesis HE' : is_model (P ++ X) E'.
      Hypothesis HEs : is_model_ov P s E Es.
      (* fresh names: what X defines was not defined before *)
      Hypothesis fresh : forall h, In h (heads X) -> rules_of P h = [].
      (* the rules of a copied predicate q reappear under the name m(q) with every predicate
         occurrence renamed by m *)
      Hypothesis copied : forall q, In q cl ->
        lookup s q = None /\ bodies P q <> [] /\
        bodies X (app m q) = map (ren_body (app m)) (bodies P q).
      (* every predicate used by a copied rule is: an argument (renamed to its value, which is
         old), or copied as well, or renamed to an old predicate that already has the required
         meaning (unaffected predicates, and clones shared through the cache) *)
      Hypothesis classified : forall q r u, In q cl -> In r P -> head r = q -> In u (uses r) ->
        (exists b, lookup s u = Some b /\ app m u = b /\ old X b) \/
        In u cl \/
        (old X (app m u) /\ E (app m u) = Es u).

      Theorem clone_sound : forall q, In q cl -> E' (app m q) = Es q.
      Proof.
        assert (forall n q, rk q < n -> In q cl -> E' (app m q) = Es q) as A.
        { induction n; intros q Hq Hcl; [lia|].
          destruct (copied q Hcl) as [Hl [Hne Hcp]].
          rewrite (HE' (app m q)), (HEs q). unfold Program.pden_ov. rewrite Hl.
          unfold Program.pden. rewrite bodies_app.
          assert (bodies P (app m q) = []) as Hnil.
          { unfold bodies. rewrite fresh; [reflexivity|].
            destruct (bodies X (app m q)) as [|b0 bs0] eqn:Eb.
            - destruct (bodies P q); [congruence|discriminate].
            - assert (In b0 (bodies X (app m q))) as Hin by (rewrite Eb; now left).
              apply in_bodies in Hin. destruct Hin as [r [Hr [Hh _]]].
              rewrite <- Hh. unfold heads. now apply in_map. }
          rewrite Hnil. simpl. rewrite Hcp.
          destruct (bodies P q) as [|b bs] eqn:Eb; [congruence|].
          transitivity (gsem (map (ren_body (app m)) (b :: bs)) E'); [reflexivity|].
          rewrite gsem_rename. apply gsem_local.
          intros b1 u Hb1 Hu. rewrite <- Eb in Hb1. apply in_bodies in Hb1.
          destruct Hb1 as [r [Hr [Hh Hrb]]]. subst b1. simpl in Hu.
          destruct (classified q r u Hcl Hr Hh Hu) as [[bv [Hlk [Hap Hold]]]|[Hc|[Hold Heq]]].
          - rewrite Hap. rewrite (HEs u). unfold Program.pden_ov. rewrite Hlk.
            eapply conservative; eauto.
          - apply IHn; [|assumption]. pose proof (Hrk r Hr u Hu). subst q. lia.
          - rewrite <- Heq. eapply conservative; eauto. }
        intros q. apply (A (S (rk q))). lia.
      Qed.
    End Clone.
  End Ranked.
End Laws.
