(* Model of parser_py/parse.py: StripSpaces, Strip, SplitRaw, Split, SplitOnWhitespace.
   No proofs here (see SplitProofs.v).  Parts are returned with their offsets (start, stop) in
   the string that was split, as the HeritageAwareString slices of the code carry them. *)
From Coq Require Import List Bool Arith NArith Lia.
Import ListNotations.
From LV Require Import Lex.Traverse.

(* ---- character classes of Python str.isspace / str.isalnum ----
   is_space is the full list of code points; is_alnum is exact below U+0250 (checked against
   CPython by the harness on every run), and false above. *)
Definition in_range (c : char) (lo hi : N) : bool := N.leb lo c && N.leb c hi.
Local Open Scope N_scope.
Definition is_space (c : char) : bool :=
  in_range c 9 13 || in_range c 28 32 || ceq c 133 || ceq c 160 || ceq c 5760 ||
  in_range c 8192 8202 || ceq c 8232 || ceq c 8233 || ceq c 8239 || ceq c 8287 || ceq c 12288.
Definition is_alnum (c : char) : bool :=
  in_range c 48 57 || in_range c 65 90 || in_range c 97 122 || ceq c 170 || in_range c 178 179 ||
  ceq c 181 || in_range c 185 186 || in_range c 188 190 || in_range c 192 214 ||
  in_range c 216 246 || in_range c 248 591.
Local Close Scope N_scope.

Definition sub (s : str) (a b : nat) : str := firstn (b - a) (skipn a s).

(* ---- StripSpaces ---- *)
Fixpoint drop_ws (s : str) : str :=
  match s with c :: r => if is_space c then drop_ws r else s | [] => [] end.
Definition strip_spaces (s : str) : str := rev (drop_ws (rev (drop_ws s))).
(* offsets of the result inside s *)
Definition strip_spaces_off (s : str) : nat * nat :=
  let a := length s - length (drop_ws s) in (a, a + length (strip_spaces s)).

(* ---- Strip: spaces and redundant outer parentheses ---- *)
Definition unwrap (t : str) : option str :=
  match t with
  | c :: r => if ceq c ch_lp then
                match rev r with
                | d :: m => if ceq d ch_rp then Some (rev m) else None
                | [] => None
                end
              else None
  | [] => None
  end.

(* returns offsets (start, stop) relative to the argument; fuel = length is enough (SplitProofs) *)
Fixpoint strip_off_f (n : nat) (base : nat) (s : str) : nat * nat :=
  let '(a, b) := strip_spaces_off s in
  let t := sub s a b in
  match n with
  | 0 => (base + a, base + b)
  | S n' => match unwrap t with
            | Some inner => if is_whole inner then strip_off_f n' (base + a + 1) inner
                            else (base + a, base + b)
            | None => (base + a, base + b)
            end
  end.
Definition strip_off (s : str) : nat * nat := strip_off_f (length s) 0 s.

Fixpoint strip_f (n : nat) (s : str) : str :=
  let t := strip_spaces s in
  match n with
  | 0 => t
  | S n' => match unwrap t with
            | Some inner => if is_whole inner then strip_f n' inner else t
            | None => t
            end
  end.
Definition strip (s : str) : str := strip_f (length s) s.

(* ---- SplitRaw ---- *)
Fixpoint prefix (p s : str) : bool :=
  match p, s with
  | [], _ => true
  | a :: p', b :: s' => ceq a b && prefix p' s'
  | _ :: _, [] => false
  end.

Definition sep_alnum (sep : str) : bool :=
  match sep with [] => false | _ => forallb is_alnum sep end.

Definition opt_is (f : char -> bool) (o : option char) : bool :=
  match o with Some c => f c | None => false end.

(* the test `s[idx:idx+l] == separator and ... ` at a yielded index whose state is empty;
   cs = s[idx:], prev = s[idx-1] *)
Definition sep_here (sep : str) (prev : option char) (cs : str) : bool :=
  prefix sep cs &&
  negb (opt_is (fun d => ceq d ch_bar) (nth_error cs (length sep))) &&
  negb (opt_is (fun d => ceq d ch_bar) prev) &&
  (if sep_alnum sep
   then negb (opt_is is_alnum prev || opt_is is_alnum (nth_error cs (length sep)))
   else true).

Definition part := (nat * nat * str)%type.
Inductive sres :=
| SParts (ps : list part)
| SErr (idx : nat)      (* ParsingException('Parenthesis matches nothing.', s[idx:idx+1]) *)
| SCrash.               (* next(traverse) on an exhausted generator *)

Definition cons_part (p : part) (r : sres) : sres :=
  match r with SParts ps => SParts (p :: ps) | e => e end.

Definition nevents (a : annot) : nat :=
  match a with AOk _ => 1 | AUnmatched => 1 | AEol _ => 2 | ASilent => 0 | ADead => 0 end.

(* k: scanner configuration; prev: previous character; skip: events still to be consumed by
   `next(traverse)`; idx: current index; pstart, cur: start and (reversed) text of the current part *)
Fixpoint sgo (sep : str) (k : cfg) (prev : option char) (skip : nat) (idx pstart : nat)
             (cur : str) (s : str) : sres :=
  match s with
  | [] => match skip with 0 => SParts [(pstart, idx, rev cur)] | S _ => SCrash end
  | c :: r =>
    let '(a, k') := advance k c r in
    match skip with
    | S _ => sgo sep k' (Some c) (skip - nevents a) (S idx) (S idx) [] r
    | 0 =>
      match a with
      | AOk [] =>
        if sep_here sep prev s
        then cons_part (pstart, idx, rev cur)
                       (sgo sep k' (Some c) (length sep - 1) (S idx) (S idx) [] r)
        else sgo sep k' (Some c) 0 (S idx) pstart (c :: cur) r
      | AEol _ => SErr idx
      | AUnmatched => SErr idx
      | _ => sgo sep k' (Some c) 0 (S idx) pstart (c :: cur) r
      end
    end
  end.

Definition split_raw (sep s : str) : sres := sgo sep start None 0 0 0 [] s.

(* Split = SplitRaw then Strip of every part (offsets stay relative to s) *)
Definition strip_part (p : part) : part :=
  let '(a, _, t) := p in
  let '(x, y) := strip_off t in (a + x, a + y, sub t x y).
Definition split (sep s : str) : sres :=
  match split_raw sep s with SParts ps => SParts (map strip_part ps) | e => e end.

(* SplitMany / SplitOnWhitespace: parts keep offsets relative to the original string *)
Definition shift_part (d : nat) (p : part) : part := let '(a, b, t) := p in (d + a, d + b, t).
Fixpoint split_many (sep : str) (ps : list part) : option (list part) :=
  match ps with
  | [] => Some []
  | (a, _, t) :: rest =>
    match split sep t, split_many sep rest with
    | SParts qs, Some more => Some (map (shift_part a) qs ++ more)
    | _, _ => None
    end
  end.
Definition nonempty_part (p : part) : bool := match p with (_, _, []) => false | _ => true end.
Definition split_on_whitespace (s : str) : option (list part) :=
  match split_many [32%N] [(0, length s, s)] with
  | Some p1 => match split_many [10%N] p1 with
               | Some p2 => option_map (filter nonempty_part) (split_many [9%N] p2)
               | None => None
               end
  | None => None
  end.

Fixpoint join (sep : str) (ps : list str) : str :=
  match ps with
  | [] => []
  | [p] => p
  | p :: rest => p ++ sep ++ join sep rest
  end.
