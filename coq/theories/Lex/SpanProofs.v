(* Proofs about Lex/Span.v: a slice with a non-negative start of a well-formed heritage-aware
   string is well formed (its text is literally heritage[start:stop]); the parts of SplitRaw,
   taken as slices, are well formed; a negative start breaks it. *)
From Coq Require Import List Bool Arith NArith ZArith Lia.
Import ListNotations.
From LV Require Import Lex.Traverse Lex.Split Lex.SplitProofs Lex.Span.
Local Open Scope Z_scope.

Lemma sub_length : forall (s : str) a b, (b <= length s)%nat -> length (sub s a b) = (b - a)%nat.
Proof. intros. unfold sub. rewrite firstn_length, skipn_length. lia. Qed.

Theorem get_slice_exact : forall h a b,
  wf h -> 0 <= a -> a <= norm_stop (zlen (h_text h)) b ->
  wf (get_slice h a b) /\
  h_text (get_slice h a b) =
    sub (h_text h) (Z.to_nat a) (Z.to_nat (norm_stop (zlen (h_text h)) b)).
Proof.
  intros h a b [W1 [W2 [W3 W4]]] Ha Hb.
  assert (Hlen : zlen (h_text h) = h_stop h - h_start h).
  { unfold zlen. rewrite W4. rewrite sub_length; unfold zlen in *; lia. }
  set (n := zlen (h_text h)) in *.
  assert (Hn : norm_stop n b <= n).
  { unfold norm_stop. destruct (b >? n) eqn:E1.
    - destruct (n <? 0) eqn:E2; lia.
    - destruct (b <? 0) eqn:E2; lia. }
  assert (Ht : py_slice (h_text h) a b = sub (h_text h) (Z.to_nat a) (Z.to_nat (norm_stop n b))).
  { unfold py_slice. fold n. f_equal.
    - unfold norm_idx. destruct (a <? 0) eqn:E; [lia|]. f_equal. lia.
    - unfold norm_idx, norm_stop in *. destruct (b >? n) eqn:E1.
      + destruct (n <? 0) eqn:E2; [lia|]. destruct (b <? 0) eqn:E3; [lia|]. f_equal. lia.
      + destruct (b <? 0) eqn:E2; f_equal; lia. }
  split; [|simpl; exact Ht].
  unfold wf, get_slice. simpl. fold n. repeat split; try lia.
  rewrite Ht. rewrite W4. rewrite sub_sub by lia. f_equal; lia.
Qed.

(* a negative start produces offsets that are not the position of the text *)
Theorem get_slice_negative_start_not_exact :
  exists h a b, wf h /\ a < 0 /\ ~ wf (get_slice h a b).
Proof.
  exists (fresh [97%N; 98%N; 99%N]), (-1), 3. split; [|split; [lia|]].
  - unfold wf, fresh. simpl. repeat split; try lia; try (unfold zlen; simpl; lia).
  - unfold wf, get_slice, fresh. simpl. intros [H _]. lia.
Qed.

Lemma fresh_wf : forall s, wf (fresh s).
Proof.
  intros. unfold wf, fresh, zlen. simpl. repeat split; try lia.
  rewrite Nat2Z.id. symmetry. apply sub_all.
Qed.

(* parts of SplitRaw, as slices of a well-formed string, are well formed and carry the part's text *)
Theorem split_raw_parts_exact : forall h sep ps,
  wf h -> split_raw sep (h_text h) = SParts ps ->
  Forall (fun p => wf (part_slice h p) /\ h_text (part_slice h p) = txt p) ps.
Proof.
  intros h sep ps W H. apply split_raw_spans in H.
  eapply Forall_impl; [|exact H]. intros [[a b] t] [P1 [P2 P3]]. unfold part_slice, txt. simpl snd.
  assert (Hb : norm_stop (zlen (h_text h)) (Z.of_nat b) = Z.of_nat b).
  { unfold norm_stop, zlen. destruct (Z.of_nat b >? Z.of_nat (length (h_text h))) eqn:E; [lia|].
    destruct (Z.of_nat b <? 0) eqn:E2; lia. }
  destruct (get_slice_exact h (Z.of_nat a) (Z.of_nat b) W) as [G1 G2]; [lia|rewrite Hb; lia|].
  split; [exact G1|]. rewrite G2, Hb, !Nat2Z.id. symmetry. exact P3.
Qed.
