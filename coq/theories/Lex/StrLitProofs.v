(* C10 — proofs about Lex/StrLit.v (building blocks; nothing here depends on coq/gen). *)
From Coq Require Import List NArith Bool Arith Lia.
Import ListNotations.
From LV Require Import Lex.StrLit.
Open Scope N_scope.

Local Arguments N.eqb : simpl never.
Local Arguments N.leb : simpl never.
Local Arguments N.ltb : simpl never.

(* ---------- str_eqb ---------- *)
Lemma str_eqb_refl : forall a, str_eqb a a = true.
Proof. induction a; simpl; auto. rewrite N.eqb_refl. auto. Qed.

Lemma str_eqb_eq : forall a b, str_eqb a b = true <-> a = b.
Proof.
  induction a; destruct b; simpl; split; intro H; try discriminate; auto.
  - apply andb_true_iff in H. destruct H as [H1 H2]. apply N.eqb_eq in H1. apply IHa in H2. congruence.
  - inversion H; subst. rewrite N.eqb_refl. simpl. apply str_eqb_refl.
Qed.

Lemma str_eqb_neq : forall a b, str_eqb a b = false <-> a <> b.
Proof.
  intros. split; intro H.
  - intro E. apply str_eqb_eq in E. congruence.
  - destruct (str_eqb a b) eqn:E; auto. apply str_eqb_eq in E. contradiction.
Qed.

(* ---------- replace_all with a one character pattern = per character map ---------- *)
Definition step_fn (p : str * str) (x : N) : str := if x =? hd 0 (fst p) then snd p else [x].

Definition esc_from (steps : list (str * str)) (l : str) : str :=
  fold_left (fun acc p => flat_map (step_fn p) acc) steps l.

Definition single_steps (steps : list (str * str)) : bool :=
  forallb (fun p => Nat.eqb (length (fst p)) 1) steps.

Lemma replace_single : forall c v s,
  replace_all [c] v s = flat_map (fun x => if x =? c then v else [x]) s.
Proof.
  intros c v s. unfold replace_all. induction s as [|a s IH]; simpl; auto.
  rewrite andb_true_r. rewrite (N.eqb_sym c a).
  destruct (a =? c); simpl; rewrite IH; auto.
Qed.

Lemma flat_map_flat_map : forall (f g : N -> str) s,
  flat_map g (flat_map f s) = flat_map (fun c => flat_map g (f c)) s.
Proof.
  induction s; simpl; auto. rewrite flat_map_app. rewrite IHs. auto.
Qed.

Lemma apply_steps_flat : forall steps, single_steps steps = true ->
  forall (g : N -> str) s,
  apply_steps steps (flat_map g s) = flat_map (fun c => esc_from steps (g c)) s.
Proof.
  induction steps as [|p ps IH]; intros Hs g s.
  - reflexivity.
  - simpl in Hs. apply andb_true_iff in Hs. destruct Hs as [Hp Hps].
    unfold apply_steps, esc_from. simpl.
    destruct p as [pat v]. simpl in *.
    destruct pat as [|c [|c2 pat]]; simpl in Hp; try discriminate.
    rewrite replace_single. rewrite flat_map_flat_map.
    specialize (IH Hps (fun c0 => flat_map (fun x => if x =? c then v else [x]) (g c0)) s).
    unfold apply_steps, esc_from in IH. rewrite IH. reflexivity.
Qed.

Lemma flat_map_singleton : forall s : str, flat_map (fun c => [c]) s = s.
Proof. induction s; simpl; congruence. Qed.

Lemma apply_steps_chars : forall steps, single_steps steps = true ->
  forall s, apply_steps steps s = flat_map (fun c => esc_from steps [c]) s.
Proof.
  intros steps Hs s. rewrite <- (flat_map_singleton s) at 1.
  apply apply_steps_flat; auto.
Qed.

(* ---------- the induction shared by every round trip theorem ---------- *)
Lemma body_roundtrip : forall (B : str -> res) (E : N -> str) (P : N -> Prop) (q : N),
  (forall c tail, P c -> B (E c ++ tail) = push c (B tail)) ->
  (forall rest, no_quote_start q rest -> B (q :: rest) = Some ([], rest)) ->
  forall s rest, Forall P s -> no_quote_start q rest ->
  B (flat_map E s ++ q :: rest) = Some (s, rest).
Proof.
  intros B E P q Hc Hq s rest Hs Hr. induction Hs as [|c s Pc Hs IH]; simpl.
  - apply Hq; auto.
  - rewrite <- app_assoc. rewrite Hc by auto. rewrite IH. reflexivity.
Qed.

Lemma Forall_True : forall (s : str), Forall (fun _ => True) s.
Proof. induction s; constructor; auto. Qed.

Lemma Forall_neq_notin : forall (x : N) (s : str), ~ In x s -> Forall (fun c => c <> x) s.
Proof.
  induction s; intros H; constructor.
  - intro E. apply H. left. auto.
  - apply IHs. intro I. apply H. right. auto.
Qed.

Ltac neq c k := replace (c =? k) with false in * by (symmetry; apply N.eqb_neq; lia).

(* closing quote followed by something that is not a quote *)
Lemma close_39 : forall (B : str -> res),
  (forall t, B (39 :: t) =
     match t with
     | c2 :: t2 => if c2 =? 39 then push 39 (B t2) else Some ([], t)
     | [] => Some ([], [])
     end) ->
  forall rest, no_quote_start 39 rest -> B (39 :: rest) = Some ([], rest).
Proof.
  intros B H rest Hr. rewrite H. destruct rest as [|c r]; auto.
  simpl in Hr. apply N.eqb_neq in Hr. rewrite Hr. auto.
Qed.

(* ---------- standard SQL ---------- *)
Definition std_esc (c : N) : str := if c =? 39 then [39; 39] else [c].

Lemma std_char : forall c tail, std_body (std_esc c ++ tail) = push c (std_body tail).
Proof.
  intros c tail. unfold std_esc. destruct (N.eqb_spec c 39) as [->|Hn].
  - reflexivity.
  - simpl. neq c 39. reflexivity.
Qed.

Lemma std_roundtrip : forall s rest, no_quote_start 39 rest ->
  lex_std (39 :: flat_map std_esc s ++ 39 :: rest) = Some (s, rest).
Proof.
  intros s rest Hr. unfold lex_std. rewrite N.eqb_refl.
  apply (body_roundtrip std_body std_esc (fun _ => True) 39); auto.
  - intros. apply std_char.
  - apply close_39. intros t. reflexivity.
  - apply Forall_True.
Qed.

(* ---------- ClickHouse lexer on a quote-doubling emitter: fine unless a backslash occurs ---------- *)
Lemma ch_char : forall c tail, c <> 92 -> ch_body (std_esc c ++ tail) = push c (ch_body tail).
Proof.
  intros c tail H92. unfold std_esc. destruct (N.eqb_spec c 39) as [->|Hn].
  - reflexivity.
  - simpl. neq c 39. neq c 92. reflexivity.
Qed.

Lemma ch_roundtrip_no_backslash : forall s rest, ~ In 92 s -> no_quote_start 39 rest ->
  lex_ch (39 :: flat_map std_esc s ++ 39 :: rest) = Some (s, rest).
Proof.
  intros s rest Hs Hr. unfold lex_ch. rewrite N.eqb_refl.
  apply (body_roundtrip ch_body std_esc (fun c => c <> 92) 39); auto.
  - intros. apply ch_char; auto.
  - apply close_39. intros t. reflexivity.
  - apply Forall_neq_notin; auto.
Qed.

(* ---------- E'...' with  \ -> \\ ,  ' -> '' ,  TAB -> \t ,  LF -> \n ---------- *)
Definition estr_esc (c : N) : str :=
  if c =? 92 then [92; 92] else if c =? 39 then [39; 39]
  else if c =? 9 then [92; 116] else if c =? 10 then [92; 110] else [c].

Lemma estr_char : forall c tail, estr_body (estr_esc c ++ tail) = push c (estr_body tail).
Proof.
  intros c tail. unfold estr_esc.
  destruct (N.eqb_spec c 92) as [->|H92]; [reflexivity|].
  destruct (N.eqb_spec c 39) as [->|H39]; [reflexivity|].
  destruct (N.eqb_spec c 9) as [->|H9]; [reflexivity|].
  destruct (N.eqb_spec c 10) as [->|H10]; [reflexivity|].
  simpl. neq c 39. neq c 92. reflexivity.
Qed.

Lemma estr_roundtrip : forall s rest, no_quote_start 39 rest ->
  lex_estr (69 :: 39 :: flat_map estr_esc s ++ 39 :: rest) = Some (s, rest).
Proof.
  intros s rest Hr. unfold lex_estr. simpl (((69 =? 69) || (69 =? 101)) && (39 =? 39)). cbv iota.
  apply (body_roundtrip estr_body estr_esc (fun _ => True) 39); auto.
  - intros. apply estr_char.
  - apply close_39. intros t. reflexivity.
  - apply Forall_True.
Qed.

(* ---------- json.dumps read by BigQuery / Databricks ---------- *)
Lemma lt32_cases : forall c, c < 32 -> In c (map N.of_nat (seq 0 32)).
Proof.
  intros c H. rewrite <- (N2Nat.id c). apply in_map. apply in_seq. lia.
Qed.

Lemma bq_char : forall c tail, bq_body (json_esc c ++ tail) = push c (bq_body tail).
Proof.
  intros c tail. destruct (N.ltb_spec c 32) as [Hlt|Hge].
  - apply lt32_cases in Hlt. simpl in Hlt.
    repeat (destruct Hlt as [<-|Hlt]; [reflexivity|]). contradiction.
  - destruct (N.eqb_spec c 34) as [->|H34]; [reflexivity|].
    destruct (N.eqb_spec c 92) as [->|H92]; [reflexivity|].
    unfold json_esc.
    neq c 34. neq c 92. neq c 10. neq c 13. neq c 9. neq c 8. neq c 12.
    replace (c <? 32) with false by (symmetry; apply N.ltb_ge; lia).
    simpl. neq c 34. neq c 92. neq c 10. neq c 13. reflexivity.
Qed.

Lemma bq_roundtrip : forall s rest,
  lex_bq (json_dumps s ++ rest) = Some (s, rest).
Proof.
  intros s rest. unfold json_dumps, lex_bq. simpl. rewrite <- app_assoc. simpl.
  apply (body_roundtrip bq_body json_esc (fun _ => True) 34 (fun c t _ => bq_char c t)).
  - intros r _. reflexivity.
  - apply Forall_True.
  - destruct rest; simpl; auto. (* no condition is needed: any rest is fine *)
Abort.

Lemma body_roundtrip_any : forall (B : str -> res) (E : N -> str) (P : N -> Prop) (q : N),
  (forall c tail, P c -> B (E c ++ tail) = push c (B tail)) ->
  (forall rest, B (q :: rest) = Some ([], rest)) ->
  forall s rest, Forall P s -> B (flat_map E s ++ q :: rest) = Some (s, rest).
Proof.
  intros B E P q Hc Hq s rest Hs. induction Hs as [|c s Pc Hs IH]; simpl.
  - apply Hq.
  - rewrite <- app_assoc. rewrite Hc by auto. rewrite IH. reflexivity.
Qed.

Lemma bq_roundtrip : forall s rest,
  lex_bq (json_dumps s ++ rest) = Some (s, rest).
Proof.
  intros s rest. unfold json_dumps, lex_bq. simpl. rewrite <- app_assoc. simpl.
  apply (body_roundtrip_any bq_body json_esc (fun _ => True) 34 (fun c t _ => bq_char c t)).
  - intros r. reflexivity.
  - apply Forall_True.
Qed.

Lemma dbx_char : forall c tail, c <> 12 -> dbx_body (json_esc c ++ tail) = push c (dbx_body tail).
Proof.
  intros c tail H12. destruct (N.ltb_spec c 32) as [Hlt|Hge].
  - apply lt32_cases in Hlt. simpl in Hlt.
    repeat (destruct Hlt as [<-|Hlt]; [try reflexivity; try (exfalso; apply H12; reflexivity)|]).
    contradiction.
  - destruct (N.eqb_spec c 34) as [->|H34]; [reflexivity|].
    destruct (N.eqb_spec c 92) as [->|H92]; [reflexivity|].
    unfold json_esc.
    neq c 34. neq c 92. neq c 10. neq c 13. neq c 9. neq c 8. neq c 12.
    replace (c <? 32) with false by (symmetry; apply N.ltb_ge; lia).
    simpl. neq c 34. neq c 92. reflexivity.
Qed.

Lemma dbx_roundtrip_no_formfeed : forall s rest, ~ In 12 s ->
  lex_dbx (json_dumps s ++ rest) = Some (s, rest).
Proof.
  intros s rest Hs. unfold json_dumps, lex_dbx. simpl. rewrite <- app_assoc. simpl.
  apply (body_roundtrip_any dbx_body json_esc (fun c => c <> 12) 34).
  - intros. apply dbx_char; auto.
  - intros r. reflexivity.
  - apply Forall_neq_notin; auto.
Qed.

(* ---------- flags ---------- *)
Lemma lookup_dict_set : forall f k v m,
  lookup f (dict_set k v m) = if str_eqb f k then Some v else lookup f m.
Proof.
  intros f k v m. induction m as [|[k' v'] m IH]; simpl.
  - reflexivity.
  - destruct (str_eqb k k') eqn:Ekk; simpl.
    + apply str_eqb_eq in Ekk. subst k'. destruct (str_eqb f k); auto.
    + destruct (str_eqb f k') eqn:Efk'.
      * apply str_eqb_eq in Efk'. subst k'.
        destruct (str_eqb f k) eqn:Efk; auto.
        apply str_eqb_eq in Efk. subst k. rewrite str_eqb_refl in Ekk. discriminate.
      * apply IH.
Qed.

Definition first_some (a b : option str) : option str :=
  match a with Some _ => a | None => b end.

Lemma lookup_dict_update : forall f upd m,
  lookup f (dict_update m upd) = first_some (lookup f (rev upd)) (lookup f m).
Proof.
  intros f upd. unfold dict_update. induction upd as [|[k v] upd IH]; intros m; simpl.
  - reflexivity.
  - rewrite IH. rewrite lookup_dict_set.
    assert (L : forall a b, lookup f (a ++ b) = first_some (lookup f a) (lookup f b)).
    { induction a as [|[k0 v0] a IHa]; intros b; simpl; auto.
      destruct (str_eqb f k0); simpl; auto. }
    rewrite L. simpl. destruct (lookup f (rev upd)); simpl; auto.
    destruct (str_eqb f k); auto.
Qed.

Lemma flags_precedence : forall defaults resets user m f,
  build_flags defaults resets user = Some m ->
  lookup f m =
  first_some (lookup f (rev user)) (first_some (lookup f (rev resets)) (lookup f (rev defaults))).
Proof.
  intros d r u m f H. unfold build_flags in H.
  destruct (forallb _ u); [|discriminate]. inversion H; subst m.
  rewrite !lookup_dict_update. simpl.
  destruct (lookup f (rev u)); simpl; auto.
  destruct (lookup f (rev r)); simpl; auto.
  destruct (lookup f (rev d)); auto.
Qed.

Lemma flags_undefined_rejected : forall defaults resets user,
  build_flags defaults resets user = None <->
  exists k v, In (k, v) user /\ lookup k defaults = None /\ k <> system_flag.
Proof.
  intros d r u. unfold build_flags.
  destruct (forallb _ u) eqn:E; split; intro H; try discriminate; auto.
  - exfalso. destruct H as (k & v & Hin & Hl & Hs).
    rewrite forallb_forall in E. specialize (E _ Hin). simpl in E.
    unfold mem_key in E. rewrite Hl in E. simpl in E. apply str_eqb_eq in E. contradiction.
  - clear H. assert (X : exists x, In x u /\
        (mem_key (fst x) d || str_eqb (fst x) system_flag) = false).
    { induction u as [|x u IH]; simpl in E; [discriminate|].
      apply andb_false_iff in E. destruct E as [E|E].
      - exists x. split; [left; auto|auto].
      - destruct (IH E) as (y & Hy & Hy2). exists y. split; [right; auto|auto]. }
    destruct X as ([k v] & Hin & Hx). simpl in Hx. apply orb_false_iff in Hx.
    destruct Hx as [Hm Hs]. exists k, v. split; auto. split.
    + unfold mem_key in Hm. destruct (lookup k d); [discriminate|auto].
    + apply str_eqb_neq. auto.
Qed.

Lemma repl_nil : forall pat v k, repl pat v k [] = [].
Proof. reflexivity. Qed.

Lemma round_flags_nil : forall flags, round_flags flags [] = [].
Proof. unfold round_flags. induction flags; simpl; auto. Qed.

Lemma flags_loop_fixed : forall flags n prev sql r,
  (sql = round_flags flags prev \/ prev = []) ->
  flags_loop n flags prev sql = Some r -> round_flags flags r = r.
Proof.
  intros flags n. induction n as [|n IH]; intros prev sql r Hinv H; simpl in H.
  - destruct (str_eqb sql prev) eqn:E; [|discriminate].
    apply str_eqb_eq in E. inversion H; subst.
    destruct Hinv as [Hi|Hi]; [congruence|]. subst. apply round_flags_nil.
  - destruct (str_eqb sql prev) eqn:E.
    + apply str_eqb_eq in E. inversion H; subst.
      destruct Hinv as [Hi|Hi]; [congruence|]. subst. apply round_flags_nil.
    + apply (IH sql (round_flags flags sql) r); auto.
Qed.

Lemma use_flags_fixed_point : forall flags sql r,
  use_flags flags sql = Some r -> round_flags flags r = r.
Proof. intros. apply (flags_loop_fixed flags 100%nat [] sql r); auto. Qed.

Lemma iter_succ_r : forall (A : Type) (f : A -> A) n x, Nat.iter (S n) f x = Nat.iter n f (f x).
Proof. intros A f n x. induction n; simpl; auto. simpl in IHn. rewrite IHn. reflexivity. Qed.

Lemma flags_loop_iter : forall flags n prev sql r,
  flags_loop n flags prev sql = Some r ->
  exists k, (k <= n)%nat /\ r = Nat.iter k (round_flags flags) sql.
Proof.
  intros flags n. induction n as [|n IH]; intros prev sql r H; simpl in H.
  - destruct (str_eqb sql prev); [|discriminate]. inversion H. exists 0%nat. split; auto.
  - destruct (str_eqb sql prev).
    + inversion H. exists 0%nat. split; [lia|auto].
    + destruct (IH _ _ _ H) as (k & Hk & Hr). exists (S k). split; [lia|].
      rewrite Hr. rewrite iter_succ_r. reflexivity.
Qed.

Lemma use_flags_bounded : forall flags sql r,
  use_flags flags sql = Some r ->
  exists k, (k <= 100)%nat /\ r = Nat.iter k (round_flags flags) sql.
Proof. intros. eapply flags_loop_iter; eauto. Qed.

Lemma flags_loop_none : forall flags n prev sql,
  flags_loop n flags prev sql = None ->
  sql <> prev /\
  forall k, (k < n)%nat ->
    Nat.iter (S k) (round_flags flags) sql <> Nat.iter k (round_flags flags) sql.
Proof.
  intros flags n. induction n as [|n IH]; intros prev sql H; simpl in H.
  - destruct (str_eqb sql prev) eqn:E; [discriminate|]. apply str_eqb_neq in E.
    split; auto. intros; lia.
  - destruct (str_eqb sql prev) eqn:E; [discriminate|]. apply str_eqb_neq in E.
    split; auto. destruct (IH _ _ H) as [H0 Hk]. intros k Hlt.
    destruct k as [|k].
    + simpl. auto.
    + intro Eq. apply (Hk k); [lia|].
      rewrite <- (iter_succ_r _ (round_flags flags) (S k) sql).
      rewrite <- (iter_succ_r _ (round_flags flags) k sql). exact Eq.
Qed.

Lemma use_flags_error_only_if_not_converged : forall flags sql,
  use_flags flags sql = None ->
  forall k, (k < 100)%nat ->
    Nat.iter (S k) (round_flags flags) sql <> Nat.iter k (round_flags flags) sql.
Proof. intros flags sql H. apply (flags_loop_none flags 100%nat [] sql H). Qed.

(* text without an occurrence of a pattern is not touched *)
Lemma starts_with_nil_false : forall p pat, starts_with (p :: pat) [] = false.
Proof. reflexivity. Qed.

Lemma replace_absent : forall p pat v s,
  has_sub (p :: pat) s = false -> replace_all (p :: pat) v s = s.
Proof.
  intros p pat v s. unfold replace_all. induction s as [|c t IH]; intros H; auto.
  change (has_sub (p :: pat) (c :: t)) with
    (starts_with (p :: pat) (c :: t) || has_sub (p :: pat) t) in H.
  apply orb_false_iff in H. destruct H as [H1 H2].
  change (repl (p :: pat) v 0 (c :: t)) with
    (if starts_with (p :: pat) (c :: t) then v ++ repl (p :: pat) v (length (p :: pat) - 1) t
     else c :: repl (p :: pat) v 0 t).
  rewrite H1. rewrite IH; auto.
Qed.

Lemma round_flags_absent : forall flags sql,
  (forall f v, In (f, v) flags -> has_sub (flag_pat f) sql = false) ->
  round_flags flags sql = sql.
Proof.
  unfold round_flags. induction flags as [|[f v] flags IH]; intros sql H; simpl; auto.
  change (flag_pat f) with (36 :: (123 :: f ++ [125])). rewrite replace_absent.
  - apply IH. intros f' v' Hin. apply (H f' v'). right; auto.
  - apply (H f v). left; auto.
Qed.

Lemma use_flags_identity : forall flags sql,
  (forall f v, In (f, v) flags -> has_sub (flag_pat f) sql = false) ->
  use_flags flags sql = Some sql.
Proof.
  intros flags sql H. unfold use_flags.
  change (flags_loop 100 flags [] sql) with
    (if str_eqb sql [] then Some sql else flags_loop 99 flags sql (round_flags flags sql)).
  destruct (str_eqb sql []); auto.
  rewrite round_flags_absent by auto.
  change (flags_loop 99 flags sql sql) with
    (if str_eqb sql sql then Some sql else flags_loop 98 flags sql (round_flags flags sql)).
  rewrite str_eqb_refl. reflexivity.
Qed.

(* a pattern starts with the dollar sign: text without it is never touched *)
Lemma has_sub_needs_head : forall p pat s, ~ In p s -> has_sub (p :: pat) s = false.
Proof.
  intros p pat s. induction s as [|c t IH]; intros H; auto.
  change (has_sub (p :: pat) (c :: t)) with
    (starts_with (p :: pat) (c :: t) || has_sub (p :: pat) t).
  rewrite IH by (intro I; apply H; right; auto).
  simpl. destruct (N.eqb_spec p c) as [->|Hn]; [exfalso; apply H; left; auto|reflexivity].
Qed.

Lemma use_flags_no_dollar : forall flags sql, ~ In 36 sql -> use_flags flags sql = Some sql.
Proof.
  intros flags sql H. apply use_flags_identity. intros f v _.
  unfold flag_pat. apply has_sub_needs_head. auto.
Qed.

(* dollar_params: nothing is reported for text without a dollar sign *)
Lemma dollar_scan_no_dollar : forall s, ~ In 36 s -> dollar_scan None s = [].
Proof.
  induction s as [|c t IH]; intros H; auto.
  simpl. destruct (N.eqb_spec c 36) as [->|Hn]; [exfalso; apply H; left; auto|].
  apply IH. intro I. apply H. right; auto.
Qed.

Lemma dollar_params_no_dollar : forall s, ~ In 36 s -> dollar_params s = [].
Proof. intros. unfold dollar_params. rewrite dollar_scan_no_dollar; auto. Qed.

(* the fixed point reached may still contain ${f} for a defined f whose value is not ${f}:
   two flags that refer to each other are swapped back within one round *)
Definition cyc_flags : list (str * str) := [([97], [36; 123; 98; 125]); ([98], [36; 123; 97; 125])].
Lemma use_flags_cycle_undetected :
  use_flags cyc_flags (flag_pat [97]) = Some (flag_pat [97]) /\
  lookup [97] cyc_flags = Some (flag_pat [98]) /\ flag_pat [98] <> flag_pat [97].
Proof. split; [vm_compute; reflexivity|]. split; [reflexivity|discriminate]. Qed.

(* ---------- ParseString, raw forms ---------- *)
Lemma existsb_34_false : forall s, ~ In 34 s -> existsb (N.eqb 34) s = false.
Proof.
  induction s as [|c t IH]; intros H; auto. simpl.
  destruct (N.eqb_spec 34 c) as [E|E]; [exfalso; apply H; left; auto|].
  apply IH. intro I. apply H. right; auto.
Qed.

Lemma parse_dq : forall s, ~ In 34 s -> parse_string_raw (34 :: s ++ [34]) = Some s.
Proof.
  intros s H. unfold parse_string_raw. rewrite rev_app_distr. simpl.
  rewrite rev_involutive. rewrite existsb_34_false by auto. reflexivity.
Qed.

Lemma parse_triple : forall s, has_sub q3 s = false ->
  parse_string_raw (q3 ++ s ++ q3) = Some s.
Proof.
  intros s H.
  assert (R : rev (34 :: 34 :: s ++ q3) = 34 :: rev (34 :: 34 :: s ++ [34; 34])).
  { replace (34 :: 34 :: s ++ q3) with ((34 :: 34 :: s ++ [34; 34]) ++ [34]).
    - rewrite rev_app_distr. reflexivity.
    - unfold q3. simpl. rewrite <- app_assoc. reflexivity. }
  assert (R2 : rev (s ++ [34; 34]) = 34 :: 34 :: rev s).
  { rewrite rev_app_distr. reflexivity. }
  change (parse_string_raw (q3 ++ s ++ q3)) with
    (match rev (34 :: 34 :: s ++ q3) with
     | 34 :: m =>
        let meat := rev m in
        if negb (existsb (N.eqb 34) meat) then Some meat
        else match meat with
             | 34 :: 34 :: t3 =>
                 match rev t3 with
                 | 34 :: 34 :: m3 => if has_sub q3 (rev m3) then None else Some (rev m3)
                 | _ => None
                 end
             | _ => None
             end
     | _ => None
     end).
  rewrite R. cbv zeta. rewrite rev_involutive.
  replace (negb (existsb (N.eqb 34) (34 :: 34 :: s ++ [34; 34]))) with false by reflexivity.
  rewrite R2. rewrite rev_involutive. rewrite H. reflexivity.
Qed.
