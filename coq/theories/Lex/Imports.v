(* C12 — model of the import driver of parser_py/parse.py (ParseFile / ParseImport / SplitImport,
   RenamePredicate, DefinedPredicates, MadePredicates) and of its C++ counterpart
   (parser_cpp/logica_parse.cpp: ParseFileInternal / ParseImport).  Model only; proofs are in
   ImportsProofs.v.

   What is abstracted: the text of a file is already split into its import statements and its rules
   (the per-file parser is an oracle: the harness runs the real parser on each file alone); a rule
   is reduced to the name occurrences that RenamePredicate can touch (the head predicate, the
   predicate made by an @Make rule, every other 'predicate_name' / string 'field' value in
   traversal order).  Names are strings = lists of ASCII codes, because the prefix scheme is
   string concatenation and its injectivity is a lexical fact. *)
From Coq Require Import List Bool Arith NArith Lia.
Import ListNotations.

Definition name := list N.            (* a string, as ASCII codes *)
Definition path := list name.         (* 'a.b.c' split on '.'; identifies a file (file_import_str) *)

Fixpoint name_eqb (a b : name) : bool :=
  match a, b with
  | [], [] => true
  | x :: a', y :: b' => N.eqb x y && name_eqb a' b'
  | _, _ => false
  end.

Fixpoint path_eqb (a b : path) : bool :=
  match a, b with
  | [], [] => true
  | x :: a', y :: b' => name_eqb x y && path_eqb a' b'
  | _, _ => false
  end.

Definition mem (x : name) (l : list name) : bool := existsb (name_eqb x) l.

Fixpoint dedup (l : list name) : list name :=
  match l with
  | [] => []
  | x :: t => if mem x t then dedup t else x :: dedup t
  end.

Record import := mkImport { i_file : path; i_pred : name; i_alias : option name }.
Record rule := mkRule { r_head : name; r_made : option name; r_body : list name }.
Record file := mkFile { f_imports : list import; f_rules : list rule }.
(* what ParseFile returns for an imported file: 'rule' and 'predicates_prefix' *)
Record parsed := mkParsed { pf_rules : list rule; pf_prefix : name }.
(* parsed_imports: insertion-ordered dict, None = being parsed *)
Definition pstate := list (path * option parsed).

Inductive err :=
  | ECycle | ENotFound | EUndefined | EUnused | EOverride
  | ECollision     (* the prefix loop ran out of path components *)
  | EImportMain    (* an imported file is called 'main' *)
  | EImpossible    (* dict lookup that cannot fail (proved unreachable from the entry point) *)
  | EFuel.
Inductive res (A : Type) := Ok (a : A) | Err (e : err).
Arguments Ok {A} a.
Arguments Err {A} e.

(* ---- RenamePredicate ---- *)
Definition rn (o n x : name) : name := if name_eqb x o then n else x.
Definition rn_rule (o n : name) (r : rule) : rule :=
  mkRule (rn o n (r_head r)) (option_map (rn o n) (r_made r)) (map (rn o n) (r_body r)).
Definition cnt (o x : name) : nat := if name_eqb x o then 1 else 0.
Definition cnt_rule (o : name) (r : rule) : nat :=
  cnt o (r_head r) + match r_made r with Some x => cnt o x | None => 0 end
  + list_sum (map (cnt o) (r_body r)).
Definition rename_all (o n : name) (rs : list rule) : list rule := map (rn_rule o n) rs.
Definition count_all (o : name) (rs : list rule) : nat := list_sum (map (cnt_rule o) rs).

(* ---- DefinedPredicates | MadePredicates, minus '@...' and '++?' ---- *)
Definition defined (rs : list rule) : list name := map r_head rs.
Definition made (rs : list rule) : list name :=
  flat_map (fun r => match r_made r with Some x => [x] | None => [] end) rs.
Definition is_at (n : name) : bool := match n with c :: _ => N.eqb c 64 | _ => false end.
Definition renamable (n : name) : bool := negb (is_at n) && negb (name_eqb n [43; 43; 63]%N).
(* the code iterates a Python set (resp. a sorted std::set); the model uses first-occurrence order.
   ImportsProofs.own_order_irrelevant: the order is irrelevant when nothing is captured. *)
Definition own (rs : list rule) : list name := dedup (filter renamable (defined rs ++ made rs)).

(* ---- the prefix loop ---- *)
Definition is_upper (c : N) : bool := (65 <=? c)%N && (c <=? 90)%N.
Definition is_lower (c : N) : bool := (97 <=? c)%N && (c <=? 122)%N.
Definition up (c : N) : N := if is_lower c then (c - 32)%N else c.
Definition low (c : N) : N := if is_upper c then (c + 32)%N else c.
(* str.capitalize on ASCII; the lambda `capitalize` of logica_parse.cpp *)
Definition capitalize (s : name) : name :=
  match s with [] => [] | c :: t => up c :: map low t end.
Definition underscore : N := 95%N.

(* Py: parse.py as it is (idx = -1; idx -= 1; assert idx > 0 fails at once, so no component can be
       prepended);
   Cpp: logica_parse.cpp (idx = n-1; idx -= 1; idx <= 0 throws, so components n-2 .. 1);
   Full: the proposed repair (components n-2 .. 0). *)
Inductive mode := Py | Cpp | Full.
Definition ext_parts (m : mode) (p : path) : list name :=
  match m with
  | Py => []
  | Cpp => rev (tl (removelast p))
  | Full => rev (removelast p)
  end.
Fixpoint extend (existing : list name) (exts : list name) (pre : name) : option name :=
  if mem pre existing then
    match exts with
    | [] => None
    | e :: exts' => extend existing exts' (e ++ pre)
    end
  else Some pre.
Definition file_prefix (m : mode) (existing : list name) (p : path) : option name :=
  extend existing (ext_parts m p) (capitalize (last p []) ++ [underscore]).

Definition main_name : name := [109; 97; 105; 110]%N.
Definition main_path : path := [main_name].
Definition is_main (p : path) : bool := path_eqb p main_path.

(* ---- the state ---- *)
Fixpoint lookup (st : pstate) (p : path) : option (option parsed) :=
  match st with
  | [] => None
  | (q, x) :: t => if path_eqb q p then Some x else lookup t p
  end.
Definition set_done (st : pstate) (p : path) (pf : parsed) : pstate :=
  map (fun e => if path_eqb (fst e) p then (fst e, Some pf) else e) st.
Definition prefixes (st : pstate) : list name :=
  flat_map (fun e => match snd e with Some pf => [pf_prefix pf] | None => [] end) st.

(* renaming the file's own predicates: for p in Defined | Made: RenamePredicate(rules, p, prefix + p) *)
Definition own_renames (pre : name) (rs : list rule) : list (name * name) :=
  map (fun o => (o, pre ++ o)) (own rs).
Fixpoint apply_renames (L : list (name * name)) (rs : list rule) : list rule :=
  match L with
  | [] => rs
  | (o, n) :: t => apply_renames t (rename_all o n rs)
  end.

Definition imported_as (i : import) : name :=
  match i_alias i with Some a => a | None => i_pred i end.

Section Driver.
  Variable m : mode.
  Variable fs : path -> option file.

  (* `for s in imported_predicates:` rename, undefined check, unused check *)
  Fixpoint apply_imports (st : pstate) (imps : list import) (rs : list rule) : res (list rule) :=
    match imps with
    | [] => Ok rs
    | i :: t =>
        match lookup st (i_file i) with
        | Some (Some pf) =>
            let tgt := pf_prefix pf ++ i_pred i in
            let created := defined (pf_rules pf) ++ made (pf_rules pf) in
            let c := count_all (imported_as i) rs in
            let rs' := rename_all (imported_as i) tgt rs in
            if negb (mem tgt created ||
                     match m with Cpp => mem (i_pred i) created | _ => false end)
            then Err EUndefined
            else if Nat.eqb c 0 then Err EUnused
            else apply_imports st t rs'
        | _ => Err EImpossible
        end
    end.

  (* ParseImport, with `rec` = ParseFile for the imported file *)
  Definition do_import (rec : pstate -> path -> file -> res (pstate * parsed))
             (acc : res pstate) (i : import) : res pstate :=
    match acc with
    | Err e => Err e
    | Ok st =>
        match lookup st (i_file i) with
        | Some None => Err ECycle
        | Some (Some _) => Ok st
        | None =>
            match fs (i_file i) with
            | None => Err ENotFound
            | Some g =>
                if is_main (i_file i) then Err EImportMain
                else
                  match rec (st ++ [(i_file i, None)]) (i_file i) g with
                  | Err e => Err e
                  | Ok (st', pf) => Ok (set_done st' (i_file i) pf)
                  end
            end
        end
    end.

  (* ParseFile without the final assembly *)
  Definition body (rec : pstate -> path -> file -> res (pstate * parsed))
             (st : pstate) (this : path) (f : file) : res (pstate * parsed) :=
    match fold_left (do_import rec) (f_imports f) (Ok st) with
    | Err e => Err e
    | Ok st1 =>
        if is_main this then
          match apply_imports st1 (f_imports f) (f_rules f) with
          | Err e => Err e
          | Ok rs => Ok (st1, mkParsed rs [])
          end
        else
          match file_prefix m (prefixes st1) this with
          | None => Err ECollision
          | Some pre =>
              match apply_imports st1 (f_imports f)
                      (apply_renames (own_renames pre (f_rules f)) (f_rules f)) with
              | Err e => Err e
              | Ok rs => Ok (st1, mkParsed rs pre)
              end
          end
    end.

  Fixpoint parse_file (fuel : nat) : pstate -> path -> file -> res (pstate * parsed) :=
    match fuel with
    | 0 => fun _ _ _ => Err EFuel
    | S k => body (parse_file k)
    end.

  (* `if this_file_name == 'main':` assemble, with the override check *)
  Fixpoint assemble (defd : list name) (entries : pstate) (acc : list rule) : res (list rule) :=
    match entries with
    | [] => Ok acc
    | (_, None) :: _ => Err EImpossible
    | (_, Some pf) :: t =>
        let new := defined (pf_rules pf) in
        if existsb (fun p => negb (is_at p) && mem p defd) new then Err EOverride
        else assemble (defd ++ new) t (acc ++ pf_rules pf)
    end.

  Definition parse_main (fuel : nat) (mainf : file) : res (list rule) :=
    match parse_file fuel [] main_path mainf with
    | Err e => Err e
    | Ok (st, pf) => assemble (defined (pf_rules pf)) st (pf_rules pf)
    end.

  (* the state at the end, for statements about it *)
  Definition parse_main_state (fuel : nat) (mainf : file) : res (pstate * parsed) :=
    parse_file fuel [] main_path mainf.
End Driver.

(* ---- several import roots: the first root that has the file (ParseImport's for/else) ---- *)
Fixpoint lookup_roots (roots : list (path -> option file)) (p : path) : option file :=
  match roots with
  | [] => None
  | r :: t => match r p with Some f => Some f | None => lookup_roots t p end
  end.

(* ---- the specification side: simultaneous substitution ---- *)
Fixpoint first_match (L : list (name * name)) (x : name) : name :=
  match L with
  | [] => x
  | (o, n) :: t => if name_eqb x o then n else first_match t x
  end.
Definition subst_rule (s : name -> name) (r : rule) : rule :=
  mkRule (s (r_head r)) (option_map s (r_made r)) (map s (r_body r)).
(* no new name of an earlier renaming step is the old name of a later one *)
Fixpoint nocap (L : list (name * name)) : bool :=
  match L with
  | [] => true
  | (_, n) :: t => negb (mem n (map fst t)) && nocap t
  end.

(* the list of renaming steps ParseFile performs for file `this`, given the final state *)
Definition import_renames (st : pstate) (imps : list import) : list (name * name) :=
  map (fun i => (imported_as i,
                 match lookup st (i_file i) with
                 | Some (Some pf) => pf_prefix pf ++ i_pred i
                 | _ => i_pred i
                 end)) imps.
Definition file_renames (st : pstate) (pre : name) (main : bool) (f : file) : list (name * name) :=
  (if main then [] else own_renames pre (f_rules f)) ++ import_renames st (f_imports f).

(* lexical side conditions of prefix injectivity *)
Definition count_upper (s : name) : nat := length (filter is_upper s).
Definition starts_upper (s : name) : bool := match s with c :: _ => is_upper c | [] => false end.
Definition no_upper (s : name) : bool := forallb (fun c => negb (is_upper c)) s.
(* every component free of upper-case letters, the base name starts with a lower-case letter *)
Definition lexical_ok (p : path) : bool :=
  forallb no_upper p && match last p [] with c :: _ => is_lower c | [] => false end.

(* ---- the import graph (specification side) ---- *)
Section Graph.
  Variable fs : path -> option file.
  (* file p exists and has an import statement for file q *)
  Definition edge (p q : path) : Prop :=
    exists f i, fs p = Some f /\ In i (f_imports f) /\ i_file i = q.
  (* one or more import steps *)
  Inductive reach : path -> path -> Prop :=
    | reach1 : forall p q, edge p q -> reach p q
    | reachS : forall p q r, edge p q -> reach q r -> reach p r.
  (* q is imported, directly or indirectly, by a file with the import statements imps *)
  Definition from_imports (imps : list import) (q : path) : Prop :=
    exists i, In i imps /\ (i_file i = q \/ reach (i_file i) q).
End Graph.

(* the rules contributed by the imported files, in the order of the state *)
Definition rules_of_state (st : pstate) : list rule :=
  flat_map (fun e => match snd e with Some pf => pf_rules pf | None => [] end) st.
