(* Executable helpers for the correspondence run of C13 (props/c13.py): flat serialisations. *)
From Coq Require Import List Bool NArith.
Import ListNotations.
From LV Require Import Lex.Session.
Open Scope N_scope.

Definition ser_head (o : option (text * text)) : list N :=
  match o with None => [0] | Some (p, a) => 1 :: p ++ 249 :: a end.

Definition ser_tree (t : tree) : list N :=
  match t with
  | Call p a => 1 :: p ++ 249 :: a
  | Times l (Call p a) => 2 :: l ++ 249 :: p ++ 249 :: a
  | Times l (Atom r) => 3 :: l ++ 249 :: r
  | Times l _ => [5]
  | Atom s => 4 :: s
  end.

Definition heads (cases : list text) : list N :=
  flat_map (fun s => 248 :: ser_head (call_head false s) ++ 247 :: ser_head (call_head true s)) cases.
Definition reads (cases : list text) : list N :=
  flat_map (fun s => 248 :: ser_tree (read false s) ++ 247 :: ser_tree (read true s)) cases.
