(* C10 — round trip theorems for the emitters that the CURRENT source of QL.StrLiteral defines
   (coq/gen/StrLitGen.v).  If the source changes an emitter, these proofs are re-run by make
   against the new table. *)
From Coq Require Import List NArith Bool Arith Lia.
Import ListNotations.
From LV Require Import Lex.StrLit Lex.StrLitProofs Lex.StrLitEmit.
From LVGen Require Import StrLitGen.
Open Scope N_scope.

Local Arguments N.eqb : simpl never.

Lemma emit_wrap_chars : forall pre suf steps, single_steps steps = true ->
  forall s, emit_of (Wrap pre suf steps) s = pre ++ flat_map (fun c => esc_from steps [c]) s ++ suf.
Proof. intros. simpl. rewrite apply_steps_chars; auto. Qed.

(* ---------- '...' with quote doubling: SQLite, PostgreSQL, Presto, Trino ---------- *)
Definition quote_doubling : emit_kind := Wrap [39] [39] [([39], [39; 39])].

Lemma quote_doubling_esc : forall c, esc_from [([39], [39; 39])] [c] = std_esc c.
Proof. intros c. unfold esc_from, step_fn, std_esc. simpl. apply app_nil_r. Qed.

Lemma emit_quote_doubling : forall s rest,
  emit_of quote_doubling s ++ rest = 39 :: flat_map std_esc s ++ 39 :: rest.
Proof.
  intros. unfold quote_doubling. rewrite emit_wrap_chars by reflexivity.
  rewrite (flat_map_ext _ _ quote_doubling_esc). simpl. rewrite <- app_assoc. reflexivity.
Qed.

Lemma roundtrip_quote_doubling_std : forall k, k = quote_doubling ->
  forall s rest, no_quote_start 39 rest -> lex_std (emit_of k s ++ rest) = Some (s, rest).
Proof. intros k -> s rest H. rewrite emit_quote_doubling. apply std_roundtrip; auto. Qed.

Theorem roundtrip_SqLite : forall s rest, no_quote_start 39 rest ->
  lex_std (emit_of kind_SqLite s ++ rest) = Some (s, rest).
Proof. apply roundtrip_quote_doubling_std. reflexivity. Qed.

Theorem roundtrip_PostgreSQL : forall s rest, no_quote_start 39 rest ->
  lex_std (emit_of kind_PostgreSQL s ++ rest) = Some (s, rest).
Proof. apply roundtrip_quote_doubling_std. reflexivity. Qed.

Theorem roundtrip_Presto : forall s rest, no_quote_start 39 rest ->
  lex_std (emit_of kind_Presto s ++ rest) = Some (s, rest).
Proof. apply roundtrip_quote_doubling_std. reflexivity. Qed.

Theorem roundtrip_Trino : forall s rest, no_quote_start 39 rest ->
  lex_std (emit_of kind_Trino s ++ rest) = Some (s, rest).
Proof. apply roundtrip_quote_doubling_std. reflexivity. Qed.

(* ---------- DuckDB: E'...' ---------- *)
Lemma duckdb_esc : forall c,
  esc_from [([92], [92; 92]); ([39], [39; 39]); ([9], [92; 116]); ([10], [92; 110])] [c] = estr_esc c.
Proof.
  intros c. unfold estr_esc.
  destruct (N.eqb_spec c 92) as [->|H92]; [reflexivity|].
  destruct (N.eqb_spec c 39) as [->|H39]; [reflexivity|].
  destruct (N.eqb_spec c 9) as [->|H9]; [reflexivity|].
  destruct (N.eqb_spec c 10) as [->|H10]; [reflexivity|].
  unfold esc_from, step_fn. simpl.
  neq c 92. simpl. neq c 39. simpl. neq c 9. simpl. neq c 10. reflexivity.
Qed.

Theorem roundtrip_DuckDB : forall s rest, no_quote_start 39 rest ->
  lex_estr (emit_of kind_DuckDB s ++ rest) = Some (s, rest).
Proof.
  intros s rest H. unfold kind_DuckDB. rewrite emit_wrap_chars by reflexivity.
  rewrite (flat_map_ext _ _ duckdb_esc).
  change ([69; 39] ++ ?x) with (69 :: 39 :: x).
  simpl. rewrite <- app_assoc. apply estr_roundtrip; auto.
Qed.

(* ---------- json.dumps: BigQuery, Databricks ---------- *)
Theorem roundtrip_BigQuery : forall s rest,
  lex_bq (emit_of kind_BigQuery s ++ rest) = Some (s, rest).
Proof. intros. apply bq_roundtrip. Qed.

Theorem roundtrip_Databricks_partial : forall s rest, ~ In 12 s ->
  lex_dbx (emit_of kind_Databricks s ++ rest) = Some (s, rest).
Proof. intros. apply dbx_roundtrip_no_formfeed; auto. Qed.

(* the form feed is written as \f, which Spark SQL reads as the letter f *)
Theorem Databricks_formfeed_refuted :
  exists s rest, no_quote_start 34 rest /\
    lex_dbx (emit_of kind_Databricks s ++ rest) <> Some (s, rest) /\
    lex_dbx (emit_of kind_Databricks s ++ rest) = Some ([102], rest).
Proof. exists [12], []. split; [exact I|]. split; [vm_compute; discriminate|vm_compute; reflexivity]. Qed.

(* ---------- ClickHouse ---------- *)
(* the emitter escapes the backslash first, then doubles the quote (repaired in /repo by the commit
   "fix: string literals for ClickHouse escape the backslash") *)
(* ClickHouse:  '%s' % s.replace('\\', '\\\\').replace("'", "''") *)
Definition proposed_ClickHouse : emit_kind := Wrap [39] [39] [([92], [92; 92]); ([39], [39; 39])].

Definition ch_fixed_esc (c : N) : str :=
  if c =? 92 then [92; 92] else if c =? 39 then [39; 39] else [c].

Lemma ch_fixed_esc_ok : forall c, esc_from [([92], [92; 92]); ([39], [39; 39])] [c] = ch_fixed_esc c.
Proof.
  intros c. unfold ch_fixed_esc.
  destruct (N.eqb_spec c 92) as [->|H92]; [reflexivity|].
  destruct (N.eqb_spec c 39) as [->|H39]; [reflexivity|].
  unfold esc_from, step_fn. simpl. neq c 92. simpl. neq c 39. reflexivity.
Qed.

Lemma ch_fixed_char : forall c tail, ch_body (ch_fixed_esc c ++ tail) = push c (ch_body tail).
Proof.
  intros c tail. unfold ch_fixed_esc.
  destruct (N.eqb_spec c 92) as [->|H92]; [reflexivity|].
  destruct (N.eqb_spec c 39) as [->|H39]; [reflexivity|].
  simpl. neq c 39. neq c 92. reflexivity.
Qed.

Theorem proposed_ClickHouse_roundtrip : forall s rest, no_quote_start 39 rest ->
  lex_ch (emit_of proposed_ClickHouse s ++ rest) = Some (s, rest).
Proof.
  intros s rest H. unfold proposed_ClickHouse. rewrite emit_wrap_chars by reflexivity.
  rewrite (flat_map_ext _ _ ch_fixed_esc_ok). simpl. rewrite <- app_assoc. simpl.
  apply (body_roundtrip ch_body ch_fixed_esc (fun _ => True) 39); auto.
  - intros. apply ch_fixed_char.
  - apply close_39. intros t. reflexivity.
  - apply Forall_True.
Qed.


Theorem roundtrip_ClickHouse : forall s rest, no_quote_start 39 rest ->
  lex_ch (emit_of kind_ClickHouse s ++ rest) = Some (s, rest).
Proof.
  intros s rest Hr. change kind_ClickHouse with proposed_ClickHouse. apply proposed_ClickHouse_roundtrip, Hr.
Qed.

Theorem roundtrip_ClickHouse_partial : forall s rest, ~ In 92 s -> no_quote_start 39 rest ->
  lex_ch (emit_of kind_ClickHouse s ++ rest) = Some (s, rest).
Proof. intros s rest _ Hr. apply roundtrip_ClickHouse, Hr. Qed.

(* why quote doubling alone (the emitter before the repair) was not enough for this lexer:
   a backslash swallows the closing quote ... *)
Theorem ClickHouse_quote_doubling_alone_refuted :
  exists s rest, no_quote_start 39 rest /\
    lex_ch (emit_of quote_doubling s ++ rest) <> Some (s, rest).
Proof. exists [92], []. split; [exact I|]. vm_compute. discriminate. Qed.

(* ... or the literal ends somewhere inside the SQL text that follows it *)
Theorem ClickHouse_quote_doubling_alone_changes_structure :
  let s := [97; 92] in
  let rest := [32; 79; 82; 32; 39; 120; 39; 32; 61; 32; 39; 120; 39] in
  no_quote_start 39 rest /\
  lex_ch (emit_of quote_doubling s ++ rest) =
    Some ([97; 39; 32; 79; 82; 32], [120; 39; 32; 61; 32; 39; 120; 39]).
Proof. split; [vm_compute; discriminate|vm_compute; reflexivity]. Qed.

(* ---------- all dialects of the generated table ---------- *)
Theorem all_dialects_have_lexer :
  forallb (fun p => match lexer_for (fst p) with Some _ => true | None => false end) dialect_kinds = true.
Proof. vm_compute. reflexivity. Qed.

Theorem roundtrip_all : forall name k lx,
  In (name, k) dialect_kinds -> lexer_for name = Some lx ->
  forall s rest, safe_for name s -> no_quote_start (quote_of lx) rest ->
  run_lexer lx (emit_of k s ++ rest) = Some (s, rest).
Proof.
  intros name k lx Hin Hlx s rest [Hch Hdbx] Hr.
  simpl in Hin.
  repeat (destruct Hin as [Hin|Hin];
          [inversion Hin; subst name k; vm_compute in Hlx; inversion Hlx; subst lx; simpl in Hr |]);
  try contradiction.
  - apply roundtrip_BigQuery.
  - apply roundtrip_ClickHouse_partial; auto.
  - apply roundtrip_Databricks_partial; auto.
  - apply roundtrip_DuckDB; auto.
  - apply roundtrip_PostgreSQL; auto.
  - apply roundtrip_Presto; auto.
  - apply roundtrip_SqLite; auto.
  - apply roundtrip_Trino; auto.
Qed.

(* FlagValue goes through the same emitter: its literal reads back as the flag's value *)
Theorem flag_value_roundtrip : forall name k lx flags f lit,
  In (name, k) dialect_kinds -> lexer_for name = Some lx ->
  flag_literal k flags f = Some lit ->
  exists v, lookup f flags = Some v /\
    forall rest, safe_for name v -> no_quote_start (quote_of lx) rest ->
    run_lexer lx (lit ++ rest) = Some (v, rest).
Proof.
  intros name k lx flags f lit Hin Hlx Hf. unfold flag_literal in Hf.
  destruct (lookup f flags) as [v|]; [|discriminate]. inversion Hf; subst lit.
  exists v. split; auto. intros rest Hs Hr. eapply roundtrip_all; eauto.
Qed.

(* ---------- the proposed repairs, checked against the same Spec lexers ---------- *)
(* Databricks:  '"%s"' % s.replace('\\','\\\\').replace('"','\\"').replace('\n','\\n').replace('\r','\\r').replace('\t','\\t') *)
Definition proposed_Databricks : emit_kind :=
  Wrap [34] [34] [([92], [92; 92]); ([34], [92; 34]); ([10], [92; 110]); ([13], [92; 114]); ([9], [92; 116])].

Definition dbx_fixed_esc (c : N) : str :=
  if c =? 92 then [92; 92] else if c =? 34 then [92; 34] else if c =? 10 then [92; 110]
  else if c =? 13 then [92; 114] else if c =? 9 then [92; 116] else [c].

Lemma dbx_fixed_esc_ok : forall c,
  esc_from [([92], [92; 92]); ([34], [92; 34]); ([10], [92; 110]); ([13], [92; 114]); ([9], [92; 116])] [c]
  = dbx_fixed_esc c.
Proof.
  intros c. unfold dbx_fixed_esc.
  destruct (N.eqb_spec c 92) as [->|H92]; [reflexivity|].
  destruct (N.eqb_spec c 34) as [->|H34]; [reflexivity|].
  destruct (N.eqb_spec c 10) as [->|H10]; [reflexivity|].
  destruct (N.eqb_spec c 13) as [->|H13]; [reflexivity|].
  destruct (N.eqb_spec c 9) as [->|H9]; [reflexivity|].
  unfold esc_from, step_fn. simpl.
  neq c 92. simpl. neq c 34. simpl. neq c 10. simpl. neq c 13. simpl. neq c 9. reflexivity.
Qed.

Lemma dbx_fixed_char : forall c tail, dbx_body (dbx_fixed_esc c ++ tail) = push c (dbx_body tail).
Proof.
  intros c tail. unfold dbx_fixed_esc.
  destruct (N.eqb_spec c 92) as [->|H92]; [reflexivity|].
  destruct (N.eqb_spec c 34) as [->|H34]; [reflexivity|].
  destruct (N.eqb_spec c 10) as [->|H10]; [reflexivity|].
  destruct (N.eqb_spec c 13) as [->|H13]; [reflexivity|].
  destruct (N.eqb_spec c 9) as [->|H9]; [reflexivity|].
  simpl. neq c 34. neq c 92. reflexivity.
Qed.

Theorem proposed_Databricks_roundtrip : forall s rest,
  lex_dbx (emit_of proposed_Databricks s ++ rest) = Some (s, rest).
Proof.
  intros s rest. unfold proposed_Databricks. rewrite emit_wrap_chars by reflexivity.
  rewrite (flat_map_ext _ _ dbx_fixed_esc_ok). simpl. rewrite <- app_assoc. simpl.
  apply (body_roundtrip_any dbx_body dbx_fixed_esc (fun _ => True) 34).
  - intros. apply dbx_fixed_char.
  - intros r. reflexivity.
  - apply Forall_True.
Qed.
