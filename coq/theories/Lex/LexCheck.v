(* Executable helpers for the correspondence run of props/c15.py: serialise what the model
   computes in the same flat format in which the harness serialises what parse.py computed,
   and compare inside Coq. *)
From Coq Require Import List Bool Arith NArith ZArith Lia.
Import ListNotations.
From LV Require Import Lex.Traverse Lex.Split Lex.Span.

Definition nn (n : nat) : N := N.of_nat n.
Definition enc_stack (st : stack) : list N := nn (length st) :: rev st.

Fixpoint enc_events (idx : nat) (a : list annot) : list N :=
  match a with
  | [] => []
  | AOk st :: r => nn idx :: 0%N :: enc_stack st ++ enc_events (S idx) r
  | AEol st :: r => nn idx :: 2%N :: 0%N :: nn idx :: 0%N :: enc_stack st ++ enc_events (S idx) r
  | AUnmatched :: r => nn idx :: 1%N :: 0%N :: enc_events (S idx) r
  | _ :: r => enc_events (S idx) r
  end.

Definition enc_rc (r : rcres) : list N :=
  match r with
  | RcOk o => 0%N :: o
  | RcUnmatched i => [1%N; nn i; nn (S i)]
  | RcEol i => [2%N; nn i; nn i]
  end.

Definition enc_part (p : part) : list N := let '(a, b, t) := p in nn a :: nn b :: nn (length t) :: t.
Definition enc_parts (ps : list part) : list N := 0%N :: nn (length ps) :: flat_map enc_part ps.
Definition enc_sres (r : sres) : list N :=
  match r with SParts ps => enc_parts ps | SErr i => [1%N; nn i] | SCrash => [2%N] end.

Definition OFF : Z := 1000%Z.
Definition zn (z : Z) : N := Z.to_N (z + OFF).
Definition nz (n : N) : Z := (Z.of_N n - OFF)%Z.

Definition bn (b : bool) : N := if b then 1%N else 0%N.

Definition model_out (kind : N) (s sep : list N) : list N :=
  match kind with
  | 0%N => enc_events 0 (traverse s)
  | 1%N => enc_rc (remove_comments s)
  | 2%N => [bn (is_whole s)]
  | 3%N => let '(a, b) := strip_spaces_off s in nn a :: nn b :: strip_spaces s
  | 4%N => let '(a, b) := strip_off s in nn a :: nn b :: strip s
  | 5%N => enc_sres (split_raw sep s)
  | 6%N => enc_sres (split sep s)
  | 7%N => match split_on_whitespace s with Some ps => enc_parts ps | None => [1%N] end
  | 8%N => match sep with
           | [st; sp; a; b] =>
             let h := get_slice (fresh s) (Z.of_N st) (Z.of_N sp) in
             let g := get_slice h (nz a) (nz b) in
             zn (h_start g) :: zn (h_stop g) :: h_text g
           | _ => []
           end
  | 9%N => map (fun c => (bn (is_space c) + 2 * bn (is_alnum c))%N) s
  | _ => []
  end.

Fixpoint leqb (a b : list N) : bool :=
  match a, b with
  | [], [] => true
  | x :: a', y :: b' => N.eqb x y && leqb a' b'
  | _, _ => false
  end.

Definition case := (N * list N * list N * list N)%type.
Definition judge (c : case) : N :=
  let '(kind, s, sep, obs) := c in if leqb (model_out kind s sep) obs then 0%N else 1%N.
