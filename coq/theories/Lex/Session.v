(* C13 — model of the module-level parser switch of parser_py/parse.py:
     TOO_MUCH = 'too much'                       (module global)
     EnactIncantations(main_code): if <incantation> in main_code: TOO_MUCH = 'fun'   (never reset)
     ParseFile: if this_file_name == 'main': EnactIncantations(s)
   and of the one place where the switch changes how a plain expression is read:
   ParseGenericCall's `good_chars` (with the switch, * ^ % / may be part of a predicate name).
   A Gallina function is deterministic by construction; this file only carries the logic by which
   the parse of a text can depend on what the process parsed before.  Model only; proofs in
   SessionProofs.v.  What it cannot exhibit: hash-randomised set/dict iteration and state
   shared across processes (explored on the real code by props/c13.py). *)
From Coq Require Import List Bool NArith.
Import ListNotations.
Open Scope N_scope.

Definition text := list N.     (* ASCII codes *)

Fixpoint text_eqb (a b : text) : bool :=
  match a, b with
  | [], [] => true
  | x :: a', y :: b' => N.eqb x y && text_eqb a' b'
  | _, _ => false
  end.

Fixpoint starts_with (pat s : text) : bool :=
  match pat, s with
  | [], _ => true
  | p :: pat', c :: s' => N.eqb p c && starts_with pat' s'
  | _ :: _, [] => false
  end.

(* `pat in s` *)
Fixpoint contains (pat s : text) : bool :=
  starts_with pat s || match s with [] => false | _ :: s' => contains pat s' end.

(* 'Signa inter verba conjugo, symbolum infixus evoco!' (checked against parse.py by the harness) *)
Definition incantation : text :=
  [83;105;103;110;97;32;105;110;116;101;114;32;118;101;114;98;97;32;99;111;110;106;117;103;111;44;32;
   115;121;109;98;111;108;117;109;32;105;110;102;105;120;117;115;32;101;118;111;99;111;33].

Definition has_incantation (s : text) : bool := contains incantation s.

(* ---- ParseGenericCall's test on the text before the first '(' ---- *)
Definition is_alnum (c : N) : bool :=
  ((65 <=? c) && (c <=? 90)) || ((97 <=? c) && (c <=? 122)) || ((48 <=? c) && (c <=? 57)).
(* '@' '_' '.' '$' '{' '}' '+' '-' '`' *)
Definition base_good (c : N) : bool :=
  is_alnum c || existsb (N.eqb c) [64; 95; 46; 36; 123; 125; 43; 45; 96].
(* with the switch: also '*' '^' '%' '/' (the non-ASCII operator symbols are outside the model) *)
Definition fun_good (c : N) : bool := existsb (N.eqb c) [42; 94; 37; 47].
Definition good (too_much : bool) (c : N) : bool := base_good c || (too_much && fun_good c).

Fixpoint split_at_paren (s : text) (acc : text) : option (text * text) :=
  match s with
  | [] => None
  | c :: s' => if N.eqb c 40 then Some (rev acc, s') else split_at_paren s' (c :: acc)
  end.

(* texts of the shape  head '(' args ')'  without strings, nesting or spaces:
   Some (predicate, args) when the call syntax applies *)
Definition call_head (too_much : bool) (s : text) : option (text * text) :=
  match split_at_paren s [] with
  | Some (h, rest) =>
      match h with
      | [] => None
      | _ => if forallb (good too_much) h && N.eqb (last rest 0) 41
             then Some (h, removelast rest) else None
      end
  | None => None
  end.

(* a two-level reading of such a text: a call, or (ParseInfix, operator '*') a product whose
   right operand is read again, or an atom *)
Inductive tree :=
  | Call (p : text) (args : text)
  | Times (l : text) (r : tree)
  | Atom (s : text).

Fixpoint split_at_star (s : text) (acc : text) : option (text * text) :=
  match s with
  | [] => None
  | c :: s' => if N.eqb c 42 then Some (rev acc, s') else split_at_star s' (c :: acc)
  end.

(* ParseInfix splits at the LAST occurrence of the operator (left associativity) *)
Definition split_at_last_star (s : text) : option (text * text) :=
  match split_at_star (rev s) [] with
  | Some (x, y) => Some (rev y, rev x)
  | None => None
  end.

Definition read (too_much : bool) (s : text) : tree :=
  match call_head too_much s with
  | Some (p, a) => Call p a
  | None =>
      match split_at_last_star s with
      | Some (l, r) =>
          Times l (match call_head too_much r with Some (p, a) => Call p a | None => Atom r end)
      | None => Atom s
      end
  end.

(* ---- the process ---- *)
Record state := mkState { too_much : bool }.
Definition fresh : state := mkState false.

(* parse.py as it is: the switch is only ever turned on *)
Definition parse_step_sticky (st : state) (main_text : text) : state * tree :=
  let st' := mkState (too_much st || has_incantation main_text) in
  (st', read (too_much st') main_text).

(* proposed repair: recompute the switch for every main file *)
Definition parse_step_reset (st : state) (main_text : text) : state * tree :=
  let st' := mkState (has_incantation main_text) in
  (st', read (too_much st') main_text).

(* parsing a sequence of main files in one process; the tree of the last one *)
Fixpoint run (step : state -> text -> state * tree) (st : state) (history : list text) (t : text) : tree :=
  match history with
  | [] => snd (step st t)
  | h :: hs => run step (fst (step st h)) hs t
  end.
