(* Proofs about Lex/Split.v: Strip laws, SplitRaw join law, exact offsets of parts,
   string literals are swallowed whole by SplitRaw. *)
From Coq Require Import List Bool Arith NArith Lia.
Import ListNotations.
From LV Require Import Lex.Traverse Lex.TraverseProofs Lex.Split.

Local Arguments step : simpl never.
Local Arguments code : simpl never.
Local Arguments ceq : simpl never.

(* ------------------------------------------------------------------ *)
(* sub *)
Lemma sub_all : forall s : str, sub s 0 (length s) = s.
Proof. intros. unfold sub. rewrite Nat.sub_0_r. simpl. apply firstn_all. Qed.

Lemma skipn_skipn' : forall (l : str) y x, skipn x (skipn y l) = skipn (y + x) l.
Proof.
  intros l y. revert l. induction y as [|y IH]; intros l x; [reflexivity|].
  destruct l as [|c l]; simpl; [destruct x; reflexivity|apply IH].
Qed.

Lemma sub_sub : forall (s : str) x y u v, u <= v -> v <= y - x ->
  sub (sub s x y) u v = sub s (x + u) (x + v).
Proof.
  intros. unfold sub. rewrite skipn_firstn_comm. rewrite firstn_firstn.
  rewrite skipn_skipn'. f_equal. lia.
Qed.

(* ------------------------------------------------------------------ *)
(* StripSpaces *)
Lemma drop_ws_app_ws : forall w x, forallb is_space w = true -> drop_ws (w ++ x) = drop_ws x.
Proof.
  induction w as [|c w IH]; intros x H; [reflexivity|].
  simpl in H. apply andb_true_iff in H. destruct H as [H1 H2]. simpl. rewrite H1. auto.
Qed.

Lemma drop_ws_nil : forall s, drop_ws s = [] -> forallb is_space s = true.
Proof.
  induction s as [|c s IH]; intro H; [reflexivity|].
  simpl in *. destruct (is_space c); [auto|discriminate].
Qed.

Lemma drop_ws_all : forall s, forallb is_space s = true -> drop_ws s = [].
Proof. intros. rewrite <- (app_nil_r s). rewrite drop_ws_app_ws by assumption. reflexivity. Qed.

Lemma drop_ws_app_nonempty : forall s w, drop_ws s <> [] -> drop_ws (s ++ w) = drop_ws s ++ w.
Proof.
  induction s as [|c s IH]; intros w H; [contradiction H; reflexivity|].
  simpl in *. destruct (is_space c); [auto|reflexivity].
Qed.

Lemma forallb_rev : forall (f : char -> bool) l, forallb f l = true -> forallb f (rev l) = true.
Proof.
  intros f l H. rewrite forallb_forall in *. intros x Hx. apply H. apply in_rev. exact Hx.
Qed.

Theorem strip_spaces_ws : forall w1 s w2,
  forallb is_space w1 = true -> forallb is_space w2 = true ->
  strip_spaces (w1 ++ s ++ w2) = strip_spaces s.
Proof.
  intros w1 s w2 H1 H2. unfold strip_spaces. rewrite drop_ws_app_ws by assumption.
  destruct (drop_ws s) as [|c t] eqn:E.
  - apply drop_ws_nil in E.
    rewrite (drop_ws_all (s ++ w2)); [reflexivity|]. rewrite forallb_app. rewrite E, H2. reflexivity.
  - rewrite drop_ws_app_nonempty by (rewrite E; discriminate). rewrite E.
    rewrite rev_app_distr. rewrite drop_ws_app_ws by (apply forallb_rev; assumption). reflexivity.
Qed.

Lemma drop_ws_length : forall s, length (drop_ws s) <= length s.
Proof. induction s as [|c s IH]; simpl; [lia|]. destruct (is_space c); simpl; lia. Qed.

Lemma strip_spaces_length : forall s, length (strip_spaces s) <= length s.
Proof.
  intros. unfold strip_spaces. rewrite rev_length.
  pose proof (drop_ws_length (rev (drop_ws s))). rewrite rev_length in H.
  pose proof (drop_ws_length s). lia.
Qed.

(* ------------------------------------------------------------------ *)
(* Strip *)
Lemma unwrap_length : forall t m, unwrap t = Some m -> length t = length m + 2.
Proof.
  intros t m H. destruct t as [|c r]; [discriminate|]. simpl in H.
  destruct (ceq c ch_lp); [|discriminate].
  destruct (rev r) as [|d x] eqn:E; [discriminate|].
  destruct (ceq d ch_rp); [|discriminate]. inversion H; subst.
  assert (length (rev r) = length (d :: x)) by (rewrite E; reflexivity).
  rewrite rev_length in H0. simpl in *. rewrite rev_length. lia.
Qed.

Lemma strip_f_fuel : forall n m s, length s <= n -> length s <= m -> strip_f n s = strip_f m s.
Proof.
  induction n as [|n IH]; intros m s Hn Hm.
  - destruct s; [|simpl in Hn; lia]. destruct m; reflexivity.
  - destruct m as [|m].
    + destruct s; [reflexivity|simpl in Hm; lia].
    + simpl. destruct (unwrap (strip_spaces s)) as [inner|] eqn:E; [|reflexivity].
      destruct (is_whole inner); [|reflexivity].
      apply unwrap_length in E. pose proof (strip_spaces_length s).
      apply IH; lia.
Qed.

Lemma strip_spaces_parens : forall s,
  strip_spaces (ch_lp :: s ++ [ch_rp]) = ch_lp :: s ++ [ch_rp].
Proof.
  intros. unfold strip_spaces. change (drop_ws (ch_lp :: s ++ [ch_rp])) with (ch_lp :: s ++ [ch_rp]).
  change (ch_lp :: s ++ [ch_rp]) with ((ch_lp :: s) ++ [ch_rp]).
  rewrite rev_app_distr. change (rev [ch_rp]) with [ch_rp]. 
  change ([ch_rp] ++ rev (ch_lp :: s)) with (ch_rp :: rev (ch_lp :: s)).
  change (drop_ws (ch_rp :: rev (ch_lp :: s))) with (ch_rp :: rev (ch_lp :: s)).
  change (ch_rp :: rev (ch_lp :: s)) with (rev [ch_rp] ++ rev (ch_lp :: s)).
  rewrite <- rev_app_distr. apply rev_involutive.
Qed.

Lemma unwrap_parens : forall s, unwrap (ch_lp :: s ++ [ch_rp]) = Some s.
Proof.
  intros. unfold unwrap. change (ceq ch_lp ch_lp) with true. cbv iota.
  rewrite rev_app_distr. simpl. change (ceq ch_rp ch_rp) with true. cbv iota.
  rewrite rev_involutive. reflexivity.
Qed.

(* redundant outer parentheses around a whole text are dropped *)
Theorem strip_parens : forall s, is_whole s = true -> strip (ch_lp :: s ++ [ch_rp]) = strip s.
Proof.
  intros s H. unfold strip. simpl length. simpl strip_f.
  rewrite strip_spaces_parens. rewrite unwrap_parens. rewrite H.
  apply strip_f_fuel; rewrite ?app_length; simpl; lia.
Qed.

(* ... and only then *)
Theorem strip_keeps_unbalanced_parens : forall s, is_whole s = false ->
  strip (ch_lp :: s ++ [ch_rp]) = ch_lp :: s ++ [ch_rp].
Proof.
  intros s H. unfold strip. simpl length. simpl strip_f.
  rewrite strip_spaces_parens. rewrite unwrap_parens. rewrite H. reflexivity.
Qed.

Lemma strip_f_spaces : forall n s s', strip_spaces s = strip_spaces s' -> strip_f n s = strip_f n s'.
Proof. intros n s s' H. destruct n; simpl; rewrite H; reflexivity. Qed.

(* white space around a text never matters to Strip *)
Theorem strip_ws : forall w1 s w2,
  forallb is_space w1 = true -> forallb is_space w2 = true ->
  strip (w1 ++ s ++ w2) = strip s.
Proof.
  intros. unfold strip.
  rewrite (strip_f_spaces _ (w1 ++ s ++ w2) s) by (apply strip_spaces_ws; assumption).
  apply strip_f_fuel; rewrite ?app_length; lia.
Qed.

(* ------------------------------------------------------------------ *)
(* SplitRaw: offsets of the parts are exact *)
Definition txt (p : part) : str := snd p.
Definition part_exact (whole : str) (p : part) : Prop :=
  let '(a, b, t) := p in a <= b /\ b <= length whole /\ t = sub whole a b.

Lemma cons_part_parts : forall p r ps, cons_part p r = SParts ps ->
  exists ps', r = SParts ps' /\ ps = p :: ps'.
Proof. intros p r ps H. destruct r; simpl in H; try discriminate. inversion H. eauto. Qed.

Lemma sgo_spans : forall sep s pre k prev skip pstart cur ps,
  pstart <= length pre -> rev cur = skipn pstart pre ->
  sgo sep k prev skip (length pre) pstart cur s = SParts ps ->
  Forall (part_exact (pre ++ s)) ps.
Proof.
  intros sep s. induction s as [|c r IH]; intros pre k prev skip pstart cur ps Hp Hc H.
  - simpl in H. destruct skip; [|discriminate]. inversion H; subst. constructor; [|constructor].
    simpl. rewrite app_nil_r. split; [exact Hp|]. split; [lia|].
    unfold sub. rewrite Hc. symmetry. apply firstn_all2. rewrite skipn_length. lia.
  - assert (Happ : pre ++ c :: r = (pre ++ [c]) ++ r) by (rewrite <- app_assoc; reflexivity).
    assert (Hlen : S (length pre) = length (pre ++ [c])) by (rewrite app_length; simpl; lia).
    assert (Hnorm : forall k', sgo sep k' (Some c) 0 (S (length pre)) pstart (c :: cur) r = SParts ps ->
                    Forall (part_exact (pre ++ c :: r)) ps).
    { intros k' H'. rewrite Happ. rewrite Hlen in H'. eapply IH; [| |exact H'].
      - rewrite app_length. simpl. lia.
      - simpl. rewrite Hc. rewrite skipn_app. replace (pstart - length pre) with 0 by lia. reflexivity. }
    assert (Hskip : forall k' sk ps', sgo sep k' (Some c) sk (S (length pre)) (S (length pre)) [] r = SParts ps' ->
                    Forall (part_exact (pre ++ c :: r)) ps').
    { intros k' sk ps' H'. rewrite Happ. rewrite Hlen in H'. eapply IH; [| |exact H'].
      - lia.
      - simpl. symmetry. apply skipn_all. }
    simpl in H. destruct (advance k c r) as [a k'].
    destruct skip as [|sk].
    + destruct a as [st| |st| |]; try discriminate; try (eapply Hnorm; exact H).
      destruct st as [|t st]; [|eapply Hnorm; exact H].
      destruct (sep_here sep prev (c :: r)); [|eapply Hnorm; exact H].
      apply cons_part_parts in H. destruct H as [ps' [H1 H2]]. subst ps.
      constructor; [|eapply Hskip; exact H1].
      simpl. split; [exact Hp|]. split; [rewrite app_length; lia|].
      unfold sub. rewrite Hc. rewrite skipn_app. rewrite firstn_app.
      rewrite skipn_length. replace (length pre - pstart - (length pre - pstart)) with 0 by lia.
      simpl. rewrite app_nil_r. symmetry. apply firstn_all2. rewrite skipn_length. lia.
    + eapply Hskip; exact H.
Qed.

(* every part SplitRaw returns is literally the text between its offsets *)
Theorem split_raw_spans : forall sep s ps, split_raw sep s = SParts ps -> Forall (part_exact s) ps.
Proof.
  intros sep s ps H. unfold split_raw in H.
  apply (sgo_spans sep s [] start None 0 0 [] ps); simpl; auto.
Qed.

(* ------------------------------------------------------------------ *)
(* SplitRaw: joining the parts with the separator gives the text back *)

(* pending annotations are either silent or stand for the quotes of a triple quote *)
Fixpoint pend_ok (pend : list annot) (s : str) : Prop :=
  match pend, s with
  | [], _ => True
  | a :: p, c :: r => (a = ASilent \/ ceq c ch_dq = true) /\ pend_ok p r
  | _ :: _, [] => False
  end.
Definition cfg_ok (k : cfg) (s : str) : Prop :=
  match k with Run pend _ => pend_ok pend s | Dead => True end.

Ltac step_cases :=
  unfold step, code, tracked, yield_, silent, starts3, starts2;
  repeat match goal with
  | |- context [match ?x with _ => _ end] => destruct x eqn:?
  | |- context [if ?x then _ else _] => destruct x eqn:?
  end; simpl.

Lemma step_pend_ok : forall st c r, pend_ok (sr_pend (step st c r)) r.
Proof.
  intros st c r.
  step_cases; auto;
  repeat match goal with H : (_ && _) = true |- _ => apply andb_true_iff in H; destruct H end;
  try discriminate; auto;
  destruct r as [|d [|e r']]; simpl in *; try discriminate;
  repeat match goal with H : (_ && _) = true |- _ => apply andb_true_iff in H; destruct H end;
  tauto.
Qed.

Lemma advance_ok : forall k c r a k', cfg_ok k (c :: r) -> advance k c r = (a, k') -> cfg_ok k' r.
Proof.
  intros k c r a k' Hk H. destruct k as [pend st|]; [|inversion H; exact I].
  destruct pend as [|x p].
  - simpl in H. inversion H; subst. destruct (sr_stop (step st c r)); [exact I|].
    simpl. apply step_pend_ok.
  - simpl in H. inversion H; subst. simpl in Hk. simpl. tauto.
Qed.

Lemma step_ok_cfg : forall st c r st', ceq c ch_dq = false ->
  sr_ann (step st c r) = AOk st' ->
  sr_stop (step st c r) = false /\ sr_pend (step st c r) = [] /\ sr_st (step st c r) = st'.
Proof.
  intros st c r st' Hq.
  step_cases; intro H; try discriminate; try (inversion H; subst; auto);
  repeat match goal with H : (_ && _) = true |- _ => apply andb_true_iff in H; destruct H end;
  try congruence.
Qed.

Lemma advance_ok_state : forall k c r st k', cfg_ok k (c :: r) -> ceq c ch_dq = false ->
  advance k c r = (AOk st, k') -> k' = Run [] st.
Proof.
  intros k c r st k' Hk Hq H. destruct k as [pend st0|]; [|inversion H].
  destruct pend as [|x p].
  - simpl in H. inversion H.
    destruct (step_ok_cfg st0 c r st Hq H1) as [E1 [E2 E3]]. rewrite E1, E2, E3. reflexivity.
  - simpl in H. inversion H; subst. simpl in Hk. destruct Hk as [[Hk|Hk] _]; congruence.
Qed.

(* characters that the scanner passes through unchanged at top level *)
Definition plain (c : char) : bool :=
  negb (ceq c ch_hash || ceq c ch_dq || ceq c ch_sq || ceq c ch_bt || ceq c ch_slash ||
        is_open c || ceq c ch_rp || ceq c ch_rc || ceq c ch_rb).

Lemma advance_plain : forall c r, plain c = true -> advance start c r = (AOk [], start).
Proof.
  intros c r H. unfold plain in H. apply negb_true_iff in H.
  repeat (apply orb_false_iff in H; destruct H as [H ?]).
  unfold start, advance, step, code, starts3, starts2, tracked, close_to_open.
  rewrite H, H6, H5, H4, H3, H2, H1, H0, H7. reflexivity.
Qed.

Lemma prefix_app : forall p s, prefix p s = true -> exists s2, s = p ++ s2.
Proof.
  induction p as [|a p IH]; intros s H; [exists s; reflexivity|].
  destruct s as [|b s]; [discriminate|]. simpl in H.
  apply andb_true_iff in H. destruct H as [H1 H2]. apply ceq_true in H1. subst b.
  destruct (IH s H2) as [s2 E]. exists s2. rewrite E. reflexivity.
Qed.

Lemma sgo_nonempty : forall sep s k prev skip idx pstart cur ps,
  sgo sep k prev skip idx pstart cur s = SParts ps -> ps <> [].
Proof.
  intros sep s. induction s as [|c r IH]; intros k prev skip idx pstart cur ps H.
  - simpl in H. destruct skip; [|discriminate]. inversion H. discriminate.
  - simpl in H. destruct (advance k c r) as [a k']. destruct skip.
    + destruct a as [st| |st| |]; try discriminate; try (eapply IH; exact H).
      destruct st; [|eapply IH; exact H].
      destruct (sep_here sep prev (c :: r)); [|eapply IH; exact H].
      apply cons_part_parts in H. destruct H as [ps' [_ E]]. subst. discriminate.
    + eapply IH; exact H.
Qed.

Lemma sgo_skip_plain : forall sep t s2 prev idx pstart ps,
  forallb plain t = true ->
  sgo sep start prev (length t) idx pstart [] (t ++ s2) = SParts ps ->
  exists prev' idx' pstart', sgo sep start prev' 0 idx' pstart' [] s2 = SParts ps.
Proof.
  intros sep t. induction t as [|c t IH]; intros s2 prev idx pstart ps Hp H.
  - simpl in H. eauto.
  - simpl in Hp. apply andb_true_iff in Hp. destruct Hp as [Hc Ht].
    simpl app in H. simpl length in H. cbn [sgo] in H.
    rewrite (advance_plain c (t ++ s2) Hc) in H. simpl nevents in H.
    replace (S (length t) - 1) with (length t) in H by lia.
    eapply IH; eauto.
Qed.

Lemma join_cons2 : forall sep p q qs, join sep (p :: q :: qs) = p ++ sep ++ join sep (q :: qs).
Proof. reflexivity. Qed.

Section Join.
  Variable sep : str.
  Variable c0 : char.
  Variable tl0 : str.
  Hypothesis sep_shape : sep = c0 :: tl0.
  Hypothesis head_not_quote : ceq c0 ch_dq = false.
  Hypothesis tail_plain : forallb plain tl0 = true.

  Lemma sgo_join : forall n s, length s <= n -> forall k prev idx pstart cur ps,
    cfg_ok k s ->
    sgo sep k prev 0 idx pstart cur s = SParts ps -> join sep (map txt ps) = rev cur ++ s.
  Proof.
    induction n as [|n IH]; intros s Hn k prev idx pstart cur ps Hk H.
    - destruct s; [|simpl in Hn; lia]. simpl in H. inversion H. simpl. rewrite app_nil_r. reflexivity.
    - destruct s as [|c r].
      { simpl in H. inversion H. simpl. rewrite app_nil_r. reflexivity. }
      simpl in Hn.
      assert (Hnorm : forall k', cfg_ok k' r -> sgo sep k' (Some c) 0 (S idx) pstart (c :: cur) r = SParts ps ->
                      join sep (map txt ps) = rev cur ++ c :: r).
      { intros k' Hk' H'. rewrite (IH r ltac:(lia) _ _ _ _ _ _ Hk' H'). simpl. rewrite <- app_assoc. reflexivity. }
      cbn [sgo] in H. destruct (advance k c r) as [a k'] eqn:Ea.
      pose proof (advance_ok _ _ _ _ _ Hk Ea) as Hk'.
      destruct a as [st| |st| |]; try discriminate; try (apply (Hnorm k' Hk' H)).
      destruct st as [|t st]; [|apply (Hnorm k' Hk' H)].
      destruct (sep_here sep prev (c :: r)) eqn:Es; [|apply (Hnorm k' Hk' H)].
      apply cons_part_parts in H. destruct H as [ps' [H1 H2]]. subst ps.
      unfold sep_here in Es. repeat (apply andb_true_iff in Es; destruct Es as [Es ?]).
      apply prefix_app in Es. destruct Es as [s2 Es]. rewrite sep_shape in Es. simpl in Es.
      inversion Es; subst c r.
      assert (k' = start).
      { apply (advance_ok_state _ _ _ _ _ Hk head_not_quote Ea). }
      subst k'. rewrite sep_shape in H1. simpl length in H1.
      replace (S (length tl0) - 1) with (length tl0) in H1 by lia. rewrite <- sep_shape in H1.
      destruct (sgo_skip_plain _ _ _ _ _ _ _ tail_plain H1) as [prev' [idx' [ps0 H3]]].
      assert (Hl : length s2 <= n) by (rewrite app_length in Hn; lia).
      pose proof (IH s2 Hl start prev' idx' ps0 [] ps' I H3) as Hj. simpl in Hj.
      pose proof (sgo_nonempty _ _ _ _ _ _ _ _ _ H3) as Hne.
      destruct ps' as [|q qs]; [contradiction Hne; reflexivity|].
      simpl map. rewrite join_cons2. simpl map in Hj. rewrite Hj.
      rewrite sep_shape. reflexivity.
  Qed.
End Join.

Theorem split_join : forall sep c0 tl0 s ps,
  sep = c0 :: tl0 -> ceq c0 ch_dq = false -> forallb plain tl0 = true ->
  split_raw sep s = SParts ps -> join sep (map txt ps) = s.
Proof.
  intros sep c0 tl0 s ps E Hq Hp H. unfold split_raw in H.
  apply (sgo_join sep c0 tl0 E Hq Hp (length s) s (le_n _) start None 0 0 [] ps I H).
Qed.

(* ------------------------------------------------------------------ *)
(* SplitRaw swallows a double-quoted literal whole, whatever it contains *)
Lemma advance_run : forall st c r,
  advance (Run [] st) c r =
  (sr_ann (step st c r), if sr_stop (step st c r) then Dead else Run (sr_pend (step st c r)) (sr_st (step st c r))).
Proof. reflexivity. Qed.

Lemma sgo_in_dq : forall sep c0 tl0, sep = c0 :: tl0 -> ceq c0 ch_dq = false ->
  forall body st prev idx pstart cur rest,
  no_char ch_dq body = true -> no_char ch_nl body = true ->
  sgo sep (Run [] (ch_dq :: st)) prev 0 idx pstart cur (body ++ ch_dq :: rest) =
  sgo sep (Run [] st) (Some ch_dq) 0 (idx + length body + 1) pstart (ch_dq :: rev body ++ cur) rest.
Proof.
  intros sep c0 tl0 Es Hq body. induction body as [|c b IH]; intros st prev idx pstart cur rest H1 H2.
  - simpl app. cbn [sgo]. rewrite advance_run. rewrite step_dq.
    change (ceq ch_dq ch_nl) with false. change (ceq ch_dq ch_dq) with true. cbv iota. simpl.
    replace (idx + 0 + 1) with (S idx) by lia.
    destruct st; [|reflexivity].
    assert (E : sep_here sep prev (ch_dq :: rest) = false).
    { unfold sep_here. rewrite Es. simpl. rewrite Hq. reflexivity. }
    rewrite E. reflexivity.
  - simpl in H1, H2. apply andb_true_iff in H1. destruct H1 as [H1 H1'].
    apply andb_true_iff in H2. destruct H2 as [H2 H2'].
    simpl app. cbn [sgo]. rewrite advance_run. rewrite step_dq.
    destruct (ceq c ch_nl); [discriminate|]. destruct (ceq c ch_dq); [discriminate|].
    simpl. rewrite IH by assumption.
    replace (S idx + length b + 1) with (idx + S (length b) + 1) by lia.
    rewrite <- app_assoc. reflexivity.
Qed.

Theorem split_swallows_dq : forall sep c0 tl0, sep = c0 :: tl0 -> ceq c0 ch_dq = false ->
  forall body st prev idx pstart cur rest,
  code_state st = true -> no_char ch_dq body = true -> no_char ch_nl body = true ->
  not_triple body rest ->
  sgo sep (Run [] st) prev 0 idx pstart cur (ch_dq :: body ++ ch_dq :: rest) =
  sgo sep (Run [] st) (Some ch_dq) 0 (idx + length body + 2) pstart
      (ch_dq :: rev body ++ ch_dq :: cur) rest.
Proof.
  intros sep c0 tl0 Es Hq body st prev idx pstart cur rest Hc H1 H2 H3.
  pose proof (string_opaque_dq st body rest Hc H1 H2 H3) as Ha.
  cbn [sgo]. rewrite advance_run.
  assert (E : step st ch_dq (body ++ ch_dq :: rest) = yield_ (ch_dq :: st)).
  { cbn [ann] in Ha. rewrite advance_run in Ha.
    destruct (step st ch_dq (body ++ ch_dq :: rest)) as [a p s' b] eqn:E.
    simpl in Ha.
    (* re-derive from the proof of string_opaque_dq: the first step is a plain yield *)
    rewrite step_code in E by assumption.
    unfold code in E. change (ceq ch_dq ch_hash) with false in E. cbv iota in E.
    assert (E3 : starts3 ch_dq ch_dq (body ++ ch_dq :: rest) = false).
    { unfold starts3. rewrite ceq_refl. simpl.
      destruct body as [|c b'].
      - simpl. destruct rest as [|d r]; [reflexivity|]. exact (H3 eq_refl).
      - simpl in H1. apply andb_true_iff in H1. destruct H1 as [H1 _].
        simpl. destruct (ceq c ch_dq); [discriminate|]. destruct (b' ++ ch_dq :: rest); reflexivity. }
    rewrite E3 in E. rewrite ceq_refl in E. symmetry. exact E. }
  rewrite E. simpl.
  rewrite (sgo_in_dq sep c0 tl0 Es Hq) by assumption.
  replace (S idx + length body + 1) with (idx + length body + 2) by lia. reflexivity.
Qed.

(* ------------------------------------------------------------------ *)
(* Strip reports exact offsets *)
Lemma drop_ws_suffix : forall s, exists w, s = w ++ drop_ws s /\ length w = length s - length (drop_ws s).
Proof.
  induction s as [|c s [w [E L]]]; [exists []; split; reflexivity|].
  cbn [drop_ws]. destruct (is_space c).
  - exists (c :: w). split; [simpl; rewrite <- E; reflexivity|].
    simpl length. pose proof (drop_ws_length s). lia.
  - exists []. split; [reflexivity|]. simpl length. lia.
Qed.

Lemma rev_drop_rev_prefix : forall x, exists w, x = rev (drop_ws (rev x)) ++ w.
Proof.
  intros x. destruct (drop_ws_suffix (rev x)) as [w [E _]].
  exists (rev w). rewrite <- rev_app_distr. rewrite <- E. symmetry. apply rev_involutive.
Qed.

Lemma strip_spaces_off_exact : forall s a b, strip_spaces_off s = (a, b) ->
  a <= b /\ b <= length s /\ strip_spaces s = sub s a b.
Proof.
  intros s a b H. unfold strip_spaces_off in H. inversion H; subst; clear H.
  destruct (drop_ws_suffix s) as [w [E L]].
  destruct (rev_drop_rev_prefix (drop_ws s)) as [w2 E2].
  fold (strip_spaces s) in E2.
  pose proof (drop_ws_length s) as Hd.
  assert (Hl : length (strip_spaces s) <= length (drop_ws s)).
  { assert (Hx : length (drop_ws s) = length (strip_spaces s ++ w2)) by (rewrite <- E2; reflexivity).
    rewrite app_length in Hx. lia. }
  split; [lia|]. split; [lia|].
  unfold sub. rewrite <- L.
  replace (length w + length (strip_spaces s) - length w) with (length (strip_spaces s)) by lia.
  assert (Hs : skipn (length w) s = drop_ws s).
  { rewrite E at 1. rewrite skipn_app. rewrite skipn_all. rewrite Nat.sub_diag. reflexivity. }
  rewrite Hs. rewrite E2. rewrite firstn_app. rewrite Nat.sub_diag. simpl. rewrite app_nil_r.
  symmetry. apply firstn_all.
Qed.

Lemma unwrap_inner : forall t m, unwrap t = Some m -> m = sub t 1 (length t - 1) /\ length t = length m + 2.
Proof.
  intros t m H. pose proof (unwrap_length t m H) as HL. split; [|exact HL].
  destruct t as [|c r]; [discriminate|]. simpl in H.
  destruct (ceq c ch_lp); [|discriminate].
  destruct (rev r) as [|d x] eqn:E; [discriminate|].
  destruct (ceq d ch_rp); [|discriminate]. inversion H; subst m.
  assert (Hr : r = rev x ++ [d]).
  { rewrite <- (rev_involutive r). rewrite E. reflexivity. }
  unfold sub. simpl skipn. rewrite Hr. simpl length. rewrite app_length. simpl.
  replace (length (rev x) + 1 - 0 - 1) with (length (rev x)) by lia.
  replace (length (rev x) + 1 - 1) with (length (rev x)) by lia.
  rewrite firstn_app. rewrite Nat.sub_diag. simpl. rewrite app_nil_r. symmetry. apply firstn_all.
Qed.

Lemma strip_off_f_exact : forall n base s a b, strip_off_f n base s = (a, b) ->
  base <= a /\ a <= b /\ b <= base + length s /\ strip_f n s = sub s (a - base) (b - base).
Proof.
  induction n as [|n IH]; intros base s a b H.
  - cbn [strip_off_f] in H. destruct (strip_spaces_off s) as [a0 b0] eqn:E0.
    destruct (strip_spaces_off_exact s a0 b0 E0) as [P1 [P2 P3]].
    inversion H; subst. cbn [strip_f]. rewrite P3.
    replace (base + a0 - base) with a0 by lia. replace (base + b0 - base) with b0 by lia.
    repeat split; lia.
  - cbn [strip_off_f strip_f] in *. destruct (strip_spaces_off s) as [a0 b0] eqn:E0.
    destruct (strip_spaces_off_exact s a0 b0 E0) as [P1 [P2 P3]].
    rewrite <- P3 in H.
    assert (Hplain : (base + a0, base + b0) = (a, b) ->
       base <= a /\ a <= b /\ b <= base + length s /\ strip_spaces s = sub s (a - base) (b - base)).
    { intro H'. inversion H'; subst. rewrite P3.
      replace (base + a0 - base) with a0 by lia. replace (base + b0 - base) with b0 by lia.
      repeat split; lia. }
    destruct (unwrap (strip_spaces s)) as [inner|] eqn:Eu; [|apply Hplain; exact H].
    destruct (is_whole inner); [|apply Hplain; exact H].
    destruct (unwrap_inner _ _ Eu) as [Hi Hl].
    assert (Hlen : length (strip_spaces s) = b0 - a0).
    { rewrite P3. unfold sub. rewrite firstn_length, skipn_length. lia. }
    destruct (IH _ _ _ _ H) as [Q1 [Q2 [Q3 Q4]]].
    assert (Hin : inner = sub s (a0 + 1) (a0 + (b0 - a0 - 1))).
    { rewrite Hi. rewrite P3 at 1. rewrite Hlen. apply sub_sub; lia. }
    repeat split; try lia.
    rewrite Q4. rewrite Hin at 1.
    rewrite sub_sub by lia. f_equal; lia.
Qed.

(* Strip returns literally the text between the offsets it reports *)
Theorem strip_span_exact : forall s a b, strip_off s = (a, b) ->
  a <= b /\ b <= length s /\ strip s = sub s a b.
Proof.
  intros s a b H. unfold strip_off in H. destruct (strip_off_f_exact _ _ _ _ _ H) as [Q1 [Q2 [Q3 Q4]]].
  unfold strip. rewrite Q4. rewrite !Nat.sub_0_r. repeat split; lia.
Qed.
