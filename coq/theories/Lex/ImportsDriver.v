(* C12 — proofs about Lex/Imports.v, part 2: the driver (parse_file / parse_main).
   A fuel-free big-step relation (Parses / Steps) is extracted from the fuelled function; all
   invariants are proved by mutual induction on it. *)
From Coq Require Import List Bool Arith NArith Lia.
Import ListNotations.
From LV Require Import Lex.Imports Lex.ImportsProofs.

Definition keys (st : pstate) : list path := map fst st.
Definition done (st : pstate) (p : path) (pf : parsed) : Prop := lookup st p = Some (Some pf).

(* ---------- the state as a finite map ---------- *)
Lemma lookup_none : forall st p, lookup st p = None <-> ~ In p (keys st).
Proof.
  induction st as [|[q x] st IH]; intro p; simpl.
  - split; auto.
  - destruct (path_eqb q p) eqn:E.
    + apply path_eqb_eq in E. subst. split; intro H. discriminate. exfalso. apply H. left. reflexivity.
    + apply path_eqb_neq in E. rewrite IH. split; intro H.
      * intros [H1|H1]; auto.
      * intro H1. apply H. right. assumption.
Qed.

Lemma lookup_In : forall st p x, lookup st p = Some x -> In (p, x) st.
Proof.
  induction st as [|[q y] st IH]; intros p x H; simpl in *; try discriminate.
  destruct (path_eqb q p) eqn:E.
  - apply path_eqb_eq in E. inversion H; subst. left. reflexivity.
  - right. apply IH. assumption.
Qed.

Lemma lookup_app : forall st q x p,
  lookup (st ++ [(q, x)]) p =
  match lookup st p with Some y => Some y | None => if path_eqb q p then Some x else None end.
Proof.
  induction st as [|[r y] st IH]; intros q x p; simpl.
  - destruct (path_eqb q p); reflexivity.
  - destruct (path_eqb r p); auto.
Qed.

Lemma lookup_set : forall st q pf p,
  lookup (set_done st q pf) p =
  if path_eqb q p then match lookup st p with Some _ => Some (Some pf) | None => None end
  else lookup st p.
Proof.
  induction st as [|[r y] st IH]; intros q pf p; simpl.
  - destruct (path_eqb q p); reflexivity.
  - destruct (path_eqb r q) eqn:E1; simpl.
    + apply path_eqb_eq in E1. subst r. destruct (path_eqb q p) eqn:E2; auto.
      rewrite IH, E2. reflexivity.
    + destruct (path_eqb r p) eqn:E2.
      * apply path_eqb_eq in E2. subst r. destruct (path_eqb q p) eqn:E3; auto.
        apply path_eqb_eq in E3. subst q. rewrite path_eqb_refl in E1. discriminate.
      * apply IH.
Qed.

Lemma keys_set : forall st q pf, keys (set_done st q pf) = keys st.
Proof.
  intros. unfold keys, set_done. rewrite map_map. apply map_ext. intros [r y]. simpl.
  destruct (path_eqb r q); reflexivity.
Qed.

Lemma keys_app : forall st q x, keys (st ++ [(q, x)]) = keys st ++ [q].
Proof. intros. unfold keys. rewrite map_app. reflexivity. Qed.

Lemma prefixes_done : forall st p pf, done st p pf -> In (pf_prefix pf) (prefixes st).
Proof.
  intros st p pf H. apply lookup_In in H. unfold prefixes. apply in_flat_map.
  exists (p, Some pf). split. assumption. simpl. left. reflexivity.
Qed.

(* ---------- a fuel-free description of the driver ---------- *)
Section DriverProofs.
  Variable m : mode.
  Variable fs : path -> option file.

  Definition final (st1 : pstate) (this : path) (f : file) (pf : parsed) : Prop :=
    if is_main this then
      pf_prefix pf = [] /\ apply_imports m st1 (f_imports f) (f_rules f) = Ok (pf_rules pf)
    else
      file_prefix m (prefixes st1) this = Some (pf_prefix pf) /\
      apply_imports m st1 (f_imports f)
        (apply_renames (own_renames (pf_prefix pf) (f_rules f)) (f_rules f)) = Ok (pf_rules pf).

  Inductive Parses : pstate -> path -> file -> pstate -> parsed -> Prop :=
    | P_intro : forall st this f st1 pf,
        Steps st (f_imports f) st1 -> final st1 this f pf -> Parses st this f st1 pf
  with Steps : pstate -> list import -> pstate -> Prop :=
    | S_nil : forall st, Steps st [] st
    | S_skip : forall st i t st1 pf0,
        lookup st (i_file i) = Some (Some pf0) -> Steps st t st1 -> Steps st (i :: t) st1
    | S_parse : forall st i t g st' pf st1,
        lookup st (i_file i) = None -> fs (i_file i) = Some g -> is_main (i_file i) = false ->
        Parses (st ++ [(i_file i, None)]) (i_file i) g st' pf ->
        Steps (set_done st' (i_file i) pf) t st1 -> Steps st (i :: t) st1.

  Scheme Parses_mind := Minimality for Parses Sort Prop
    with Steps_mind := Minimality for Steps Sort Prop.
  Combined Scheme Parses_Steps_ind from Parses_mind, Steps_mind.

  Lemma fold_err : forall rec imps e, fold_left (do_import fs rec) imps (Err e) = Err e.
  Proof. induction imps as [|i t IH]; intro e; simpl; auto. Qed.

  Lemma fold_steps : forall rec,
    (forall st this f st' pf, rec st this f = Ok (st', pf) -> Parses st this f st' pf) ->
    forall imps st st1, fold_left (do_import fs rec) imps (Ok st) = Ok st1 -> Steps st imps st1.
  Proof.
    intros rec Hrec. induction imps as [|i t IH]; intros st st1 H; simpl in H.
    - inversion H; subst. constructor.
    - destruct (lookup st (i_file i)) as [[pf0|]|] eqn:El.
      + eapply S_skip; eauto.
      + rewrite fold_err in H. discriminate.
      + destruct (fs (i_file i)) as [g|] eqn:Ef; [|rewrite fold_err in H; discriminate].
        destruct (is_main (i_file i)) eqn:Em; [rewrite fold_err in H; discriminate|].
        destruct (rec (st ++ [(i_file i, None)]) (i_file i) g) as [[st' pf]|e] eqn:Er;
          [|rewrite fold_err in H; discriminate].
        eapply S_parse; eauto.
  Qed.

  Lemma body_parses : forall rec,
    (forall st this f st' pf, rec st this f = Ok (st', pf) -> Parses st this f st' pf) ->
    forall st this f st1 pf, body m fs rec st this f = Ok (st1, pf) -> Parses st this f st1 pf.
  Proof.
    intros rec Hrec st this f st1 pf H. unfold body in H.
    destruct (fold_left (do_import fs rec) (f_imports f) (Ok st)) as [st2|e] eqn:Ef; try discriminate.
    apply (fold_steps rec Hrec) in Ef.
    destruct (is_main this) eqn:Em.
    - destruct (apply_imports m st2 (f_imports f) (f_rules f)) as [rs|e] eqn:Ea; try discriminate.
      inversion H; subst. constructor. assumption. unfold final. rewrite Em. simpl. auto.
    - destruct (file_prefix m (prefixes st2) this) as [pre|] eqn:Ep; try discriminate.
      destruct (apply_imports m st2 (f_imports f) (apply_renames (own_renames pre (f_rules f)) (f_rules f)))
        as [rs|e] eqn:Ea; try discriminate.
      inversion H; subst. constructor. assumption. unfold final. rewrite Em. simpl. auto.
  Qed.

  Lemma parse_file_parses : forall fuel st this f st1 pf,
    parse_file m fs fuel st this f = Ok (st1, pf) -> Parses st this f st1 pf.
  Proof.
    induction fuel as [|k IH]; intros st this f st1 pf H; simpl in H; try discriminate.
    eapply body_parses; eauto.
  Qed.

  (* ---------- how the state grows ---------- *)
  Definition Ext (st st' : pstate) : Prop := forall p,
    match lookup st p with
    | Some None => lookup st' p = Some None
    | Some (Some pf) => lookup st' p = Some (Some pf)
    | None => lookup st' p <> Some None
    end.

  Lemma Ext_refl : forall st, Ext st st.
  Proof. intros st p. destruct (lookup st p) as [[pf|]|]; auto. discriminate. Qed.

  Lemma Ext_step : forall st q st' pf st1,
    lookup st q = None -> Ext (st ++ [(q, None)]) st' -> Ext (set_done st' q pf) st1 -> Ext st st1.
  Proof.
    intros st q st' pf st1 Hq E1 E2 p.
    specialize (E1 p). specialize (E2 p). rewrite lookup_app in E1. rewrite lookup_set in E2.
    destruct (path_eqb q p) eqn:Eqp.
    - apply path_eqb_eq in Eqp. subst p. rewrite Hq in *. rewrite E1 in E2. rewrite E2. discriminate.
    - destruct (lookup st p) as [[pf0|]|] eqn:El.
      + rewrite E1 in E2. assumption.
      + rewrite E1 in E2. assumption.
      + destruct (lookup st' p) as [[pf0|]|] eqn:El'.
        * rewrite E2. discriminate.
        * exfalso. apply E1. reflexivity.
        * assumption.
  Qed.

  Lemma NoDup_snoc : forall (l : list path) q, NoDup l -> ~ In q l -> NoDup (l ++ [q]).
  Proof.
    induction l as [|a l IH]; intros q Hn Hq; simpl.
    - constructor. auto. constructor.
    - inversion Hn; subst. constructor.
      + intro Hin. apply in_app_or in Hin. destruct Hin as [Hin|[Hin|[]]]; auto.
        subst. apply Hq. left. reflexivity.
      + apply IH; auto. intro Hin. apply Hq. right. assumption.
  Qed.

  Lemma grow :
    (forall st this f st1 pf, Parses st this f st1 pf ->
       Ext st st1 /\ (NoDup (keys st) -> NoDup (keys st1))) /\
    (forall st imps st1, Steps st imps st1 ->
       Ext st st1 /\ (NoDup (keys st) -> NoDup (keys st1))).
  Proof.
    apply Parses_Steps_ind.
    - intros st this f st1 pf _ IH _. assumption.
    - intro st. split. apply Ext_refl. auto.
    - intros st i t st1 pf0 _ _ IH. assumption.
    - intros st i t g st' pf st1 Hl Hf Hm _ [E1 N1] _ [E2 N2]. split.
      + eapply Ext_step; eauto.
      + intro Hn. apply N2. rewrite keys_set. apply N1. rewrite keys_app. apply NoDup_snoc. assumption.
        apply lookup_none. assumption.
  Qed.

  (* ---------- the invariant ---------- *)
  Definition imports_done (st : pstate) (f : file) : Prop :=
    forall i, In i (f_imports f) -> exists pfi, done st (i_file i) pfi.

  Definition entry_ok (st : pstate) (p : path) (pf : parsed) : Prop :=
    exists f, fs p = Some f /\ imports_done st f /\ is_main p = false /\
      pf_rules pf = apply_renames (file_renames st (pf_prefix pf) false f) (f_rules f).

  Record Inv (st : pstate) : Prop := mkInv {
    inv_nodup : NoDup (keys st);
    inv_entry : forall p pf, done st p pf -> entry_ok st p pf;
    inv_uniq : forall p1 p2 pf1 pf2,
      done st p1 pf1 -> done st p2 pf2 -> pf_prefix pf1 = pf_prefix pf2 -> p1 = p2;
    inv_acyc : forall p pf, done st p pf -> ~ reach fs p p
  }.

  Definition DoneMono (st st' : pstate) : Prop := forall q pf, done st q pf -> done st' q pf.

  Lemma Ext_DoneMono : forall st st', Ext st st' -> DoneMono st st'.
  Proof. intros st st' E q pf H. specialize (E q). unfold done in *. rewrite H in E. assumption. Qed.

  Lemma import_renames_mono : forall st st' imps,
    (forall i, In i imps -> exists pfi, done st (i_file i) pfi) -> DoneMono st st' ->
    import_renames st' imps = import_renames st imps.
  Proof.
    intros st st' imps Hd Hm. unfold import_renames. apply map_ext_in. intros i Hi.
    destruct (Hd i Hi) as [pfi Hpfi]. rewrite (Hm _ _ Hpfi). unfold done in Hpfi. rewrite Hpfi. reflexivity.
  Qed.

  Lemma file_renames_mono : forall st st' pre b f,
    imports_done st f -> DoneMono st st' -> file_renames st' pre b f = file_renames st pre b f.
  Proof.
    intros. unfold file_renames. f_equal. apply import_renames_mono; assumption.
  Qed.

  Lemma imports_done_mono : forall st st' f, imports_done st f -> DoneMono st st' -> imports_done st' f.
  Proof. intros st st' f H Hm i Hi. destruct (H i Hi) as [pfi Hp]. exists pfi. apply Hm. assumption. Qed.

  Lemma entry_ok_mono : forall st st' p pf, entry_ok st p pf -> DoneMono st st' -> entry_ok st' p pf.
  Proof.
    intros st st' p pf [f [Hf [Hd [Hm Hr]]]] Hmono. exists f. repeat split; auto.
    - eapply imports_done_mono; eauto.
    - rewrite (file_renames_mono st st'); auto.
  Qed.

  Lemma closure : forall st, (forall p pf, done st p pf -> entry_ok st p pf) ->
    forall p q, reach fs p q -> forall pf, done st p pf -> exists pfq, done st q pfq.
  Proof.
    intros st He p q Hr. induction Hr as [p q [f [i [Hf [Hi Hq]]]]|p q r [f [i [Hf [Hi Hq]]]] Hr IH]; intros pf Hd.
    - destruct (He p pf Hd) as [f' [Hf' [Hdone _]]]. rewrite Hf in Hf'. inversion Hf'; subst f'.
      subst q. apply Hdone. assumption.
    - destruct (He p pf Hd) as [f' [Hf' [Hdone _]]]. rewrite Hf in Hf'. inversion Hf'; subst f'.
      subst q. destruct (Hdone i Hi) as [pfi Hpfi]. eapply IH. eassumption.
  Qed.

  Lemma reach_from_done : forall st q g,
    (forall p pf, done st p pf -> entry_ok st p pf) -> fs q = Some g -> imports_done st g ->
    forall r, reach fs q r -> exists pfr, done st r pfr.
  Proof.
    intros st q g He Hf Hd r Hr. inversion Hr as [p q' [f [i [Hf' [Hi Hq]]]]|p q' r' [f [i [Hf' [Hi Hq]]]] Hr']; subst.
    - rewrite Hf in Hf'. inversion Hf'; subst. apply Hd. assumption.
    - rewrite Hf in Hf'. inversion Hf'; subst. destruct (Hd i Hi) as [pfi Hpfi].
      eapply closure; eauto.
  Qed.

  Lemma apply_imports_done : forall st imps rs rs',
    apply_imports m st imps rs = Ok rs' -> forall i, In i imps -> exists pfi, done st (i_file i) pfi.
  Proof.
    intros st. induction imps as [|i t IH]; intros rs rs' H j Hj; simpl in *. contradiction.
    destruct (lookup st (i_file i)) as [[pf|]|] eqn:El; try discriminate.
    destruct (negb _); try discriminate. destruct (Nat.eqb _ 0); try discriminate.
    destruct Hj as [Hj|Hj].
    - subst. exists pf. assumption.
    - eapply IH; eauto.
  Qed.

  Lemma apply_imports_renames : forall st imps rs rs',
    apply_imports m st imps rs = Ok rs' -> rs' = apply_renames (import_renames st imps) rs.
  Proof.
    intros st. induction imps as [|i t IH]; intros rs rs' H; simpl in *.
    - inversion H. reflexivity.
    - destruct (lookup st (i_file i)) as [[pf|]|] eqn:El; try discriminate.
      destruct (negb _); try discriminate. destruct (Nat.eqb _ 0); try discriminate.
      apply IH in H. assumption.
  Qed.

  Lemma done_app : forall st q p pf, lookup st q = None ->
    (done (st ++ [(q, None)]) p pf <-> done st p pf).
  Proof.
    intros st q p pf Hq. unfold done. rewrite lookup_app.
    destruct (lookup st p) as [y|] eqn:El; [tauto|].
    destruct (path_eqb q p); split; intro H; discriminate.
  Qed.

  Lemma done_set : forall st q pf p pf', lookup st q = Some None ->
    (done (set_done st q pf) p pf' <-> (p = q /\ pf' = pf) \/ (p <> q /\ done st p pf')).
  Proof.
    intros st q pf p pf' Hq. unfold done. rewrite lookup_set.
    destruct (path_eqb q p) eqn:E.
    - apply path_eqb_eq in E. subst p. rewrite Hq. split.
      + intro H. inversion H. left. auto.
      + intros [[_ H]|[H _]]. subst. reflexivity. exfalso. apply H. reflexivity.
    - apply path_eqb_neq in E. split.
      + intro H. right. split; auto.
      + intros [[H _]|[_ H]]. exfalso. apply E. auto. assumption.
  Qed.

  Lemma Inv_app : forall st q, Inv st -> lookup st q = None -> Inv (st ++ [(q, None)]).
  Proof.
    intros st q [Hn He Hu Ha] Hq.
    assert (Hm : DoneMono st (st ++ [(q, None)])) by (intros p pf H; apply done_app; assumption).
    constructor.
    - rewrite keys_app. apply NoDup_snoc. assumption. apply lookup_none. assumption.
    - intros p pf H. apply done_app in H; auto. eapply entry_ok_mono; eauto.
    - intros p1 p2 pf1 pf2 H1 H2. apply done_app in H1; auto. apply done_app in H2; auto. eauto.
    - intros p pf H. apply done_app in H; auto. eauto.
  Qed.

  Definition post (st1 : pstate) (this : path) (f : file) (pf : parsed) : Prop :=
    imports_done st1 f /\
    pf_rules pf = apply_renames (file_renames st1 (pf_prefix pf) (is_main this) f) (f_rules f) /\
    (is_main this = false -> forall q pfq, done st1 q pfq -> pf_prefix pfq <> pf_prefix pf) /\
    (is_main this = true -> pf_prefix pf = []).

  Lemma final_post : forall st1 this f pf, final st1 this f pf -> post st1 this f pf.
  Proof.
    intros st1 this f pf H. unfold final in H. unfold post. destruct (is_main this) eqn:Em.
    - destruct H as [Hp Ha]. repeat split.
      + intros i Hi. eapply apply_imports_done; eauto.
      + apply apply_imports_renames in Ha. rewrite Ha. unfold file_renames. reflexivity.
      + intro. discriminate.
      + auto.
    - destruct H as [Hp Ha]. repeat split.
      + intros i Hi. eapply apply_imports_done; eauto.
      + apply apply_imports_renames in Ha. rewrite Ha. unfold file_renames. rewrite apply_renames_app. reflexivity.
      + intros _ q pfq Hd E. apply file_prefix_fresh in Hp. apply Hp. rewrite <- E. eapply prefixes_done; eauto.
      + intro. discriminate.
  Qed.

  Lemma invariant :
    (forall st this f st1 pf, Parses st this f st1 pf -> Inv st -> Inv st1 /\ post st1 this f pf) /\
    (forall st imps st1, Steps st imps st1 -> Inv st -> Inv st1).
  Proof.
    apply Parses_Steps_ind.
    - intros st this f st1 pf _ IH Hfin Hinv. split. auto. apply final_post. assumption.
    - auto.
    - intros st i t st1 pf0 _ _ IH Hinv. auto.
    - intros st i t g st' pf st1 Hl Hf Hm HP IHP _ IHS Hinv.
      apply IHS. clear IHS.
      destruct (IHP (Inv_app _ _ Hinv Hl)) as [[Hn He Hu Ha] [Hd [Hr [Hfresh _]]]].
      destruct grow as [G _]. destruct (G _ _ _ _ _ HP) as [E _].
      assert (Hq : lookup st' (i_file i) = Some None).
      { specialize (E (i_file i)). rewrite lookup_app, Hl, path_eqb_refl in E. assumption. }
      assert (Hmono : DoneMono st' (set_done st' (i_file i) pf)).
      { intros p pf' H. apply done_set; auto. right. split; auto. intro; subst. unfold done in H. congruence. }
      constructor.
      + rewrite keys_set. assumption.
      + intros p pf' H. apply done_set in H; auto. destruct H as [[-> ->]|[Hne H]].
        * exists g. repeat split; auto.
          -- eapply imports_done_mono; eauto.
          -- rewrite Hr, Hm. rewrite (file_renames_mono st' (set_done st' (i_file i) pf)); auto.
        * eapply entry_ok_mono; eauto.
      + intros p1 p2 pf1 pf2 H1 H2 Epre. apply done_set in H1; auto. apply done_set in H2; auto.
        destruct H1 as [[-> ->]|[Hne1 H1]]; destruct H2 as [[-> ->]|[Hne2 H2]]; auto.
        * exfalso. eapply Hfresh; eauto.
        * exfalso. eapply Hfresh; eauto.
        * eauto.
      + intros p pf' H. apply done_set in H; auto. destruct H as [[-> ->]|[Hne H]].
        * intro Hr'. destruct (reach_from_done st' (i_file i) g He Hf Hd _ Hr') as [pfr Hpfr].
          unfold done in Hpfr. congruence.
        * eauto.
  Qed.

  (* every file in the state is reachable from the import statements that started the run *)
  Lemma only_reachable :
    (forall st this f st1 pf, Parses st this f st1 pf ->
       forall q, In q (keys st1) -> In q (keys st) \/ from_imports fs (f_imports f) q) /\
    (forall st imps st1, Steps st imps st1 ->
       forall q, In q (keys st1) -> In q (keys st) \/ from_imports fs imps q).
  Proof.
    apply Parses_Steps_ind.
    - intros st this f st1 pf _ IH _. assumption.
    - auto.
    - intros st i t st1 pf0 _ _ IH q Hq. destruct (IH q Hq) as [H|[j [Hj H]]]; auto.
      right. exists j. split; auto. right. assumption.
    - intros st i t g st' pf st1 Hl Hf Hm _ IHP _ IHS q Hq.
      destruct (IHS q Hq) as [H|[j [Hj H]]].
      + rewrite keys_set in H. destruct (IHP q H) as [H1|[j [Hj H1]]].
        * rewrite keys_app in H1. apply in_app_or in H1. destruct H1 as [H1|[H1|[]]]; auto.
          right. exists i. split. left. reflexivity. left. assumption.
        * right. exists i. split. left. reflexivity. right.
          assert (Hedge : edge fs (i_file i) (i_file j)) by (exists g, j; auto).
          destruct H1 as [H1|H1].
          -- subst q. apply reach1. assumption.
          -- eapply reachS; eauto.
      + right. exists j. split; auto. right. assumption.
  Qed.

  (* ---------- the final assembly ---------- *)
  Lemma assemble_spec : forall es d acc R,
    assemble d es acc = Ok R ->
    R = acc ++ rules_of_state es /\
    (forall p pf n, In (p, Some pf) es -> In n (defined (pf_rules pf)) -> is_at n = false -> ~ In n d).
  Proof.
    induction es as [|[p [pf|]] es IH]; intros d acc R H; simpl in H.
    - inversion H. split. unfold rules_of_state. simpl. rewrite app_nil_r. reflexivity.
      intros ? ? ? [].
    - destruct (existsb _ (defined (pf_rules pf))) eqn:Ee; try discriminate.
      apply IH in H. destruct H as [HR Hno]. split.
      + rewrite HR. unfold rules_of_state. simpl. rewrite app_assoc. reflexivity.
      + intros p' pf' n [Hin|Hin] Hn Hat.
        * inversion Hin; subst. intro Hd.
          assert (Hex : existsb (fun p0 => negb (is_at p0) && mem p0 d) (defined (pf_rules pf')) = true).
          { apply existsb_exists. exists n. split; auto. rewrite Hat. simpl. apply mem_In. assumption. }
          congruence.
        * intro Hd. eapply Hno; eauto. apply in_or_app. left. assumption.
    - discriminate.
  Qed.

  Lemma Inv_nil : Inv [].
  Proof.
    constructor; simpl.
    - constructor.
    - intros p pf H. discriminate.
    - intros ? ? ? ? H. discriminate.
    - intros p pf H. discriminate.
  Qed.

  (* ---------- what a successful run of the driver means ---------- *)
  Theorem main_state_facts : forall fuel mainf st pfm,
    parse_main_state m fs fuel mainf = Ok (st, pfm) ->
    (* every file once *)
    NoDup (keys st) /\
    (* exactly the files reachable through import statements *)
    (forall p, In p (keys st) <-> from_imports fs (f_imports mainf) p) /\
    (* none of them on an import cycle *)
    (forall p, In p (keys st) -> ~ reach fs p p) /\
    (* distinct files, distinct prefixes *)
    (forall p1 p2 pf1 pf2, In (p1, Some pf1) st -> In (p2, Some pf2) st ->
       pf_prefix pf1 = pf_prefix pf2 -> p1 = p2) /\
    (* every entry is complete and holds the renamed rules of its file *)
    (forall p x, In (p, x) st -> exists pf f, x = Some pf /\ fs p = Some f /\ is_main p = false /\
       pf_rules pf = apply_renames (file_renames st (pf_prefix pf) false f) (f_rules f)) /\
    (* main's own rules *)
    pf_rules pfm = apply_renames (file_renames st [] true mainf) (f_rules mainf).
  Proof.
    intros fuel mainf st pfm H. unfold parse_main_state in H. apply parse_file_parses in H.
    destruct invariant as [I _]. destruct (I _ _ _ _ _ H Inv_nil) as [[Hn He Hu Ha] [Hd [Hr [_ Hpre]]]].
    destruct grow as [G _]. destruct (G _ _ _ _ _ H) as [E _].
    destruct only_reachable as [O _]. specialize (O _ _ _ _ _ H).
    assert (Hall : forall p x, In (p, x) st -> exists pf, x = Some pf /\ done st p pf).
    { intros p x Hin. destruct (lookup st p) as [[pf|]|] eqn:El.
      - apply lookup_In in El as Hin2. exists pf. split; auto.
        destruct x as [pf2|].
        + assert (NoDup (map fst st)) as Hnd by exact Hn.
          clear - Hin Hin2 Hnd. induction st as [|[q y] st IH]; simpl in *. contradiction.
          inversion Hnd; subst. destruct Hin as [Hin|Hin]; destruct Hin2 as [Hin2|Hin2].
          * congruence.
          * inversion Hin; subst. exfalso. apply H1. apply in_map_iff. exists (p, Some pf). auto.
          * inversion Hin2; subst. exfalso. apply H1. apply in_map_iff. exists (p, Some pf2). auto.
          * auto.
        + exfalso. assert (NoDup (map fst st)) as Hnd by exact Hn.
          clear - Hin Hin2 Hnd. induction st as [|[q y] st IH]; simpl in *. contradiction.
          inversion Hnd; subst. destruct Hin as [Hin|Hin]; destruct Hin2 as [Hin2|Hin2].
          * congruence.
          * inversion Hin; subst. apply H1. apply in_map_iff. exists (p, Some pf). auto.
          * inversion Hin2; subst. apply H1. apply in_map_iff. exists (p, None). auto.
          * auto.
      - exfalso. specialize (E p). simpl in E. apply E. assumption.
      - exfalso. apply lookup_none in El. apply El. unfold keys. apply in_map_iff. exists (p, x). auto. }
    assert (Hin_done : forall p pf, In (p, Some pf) st -> done st p pf).
    { intros p pf Hin. destruct (Hall _ _ Hin) as [pf' [E1 Hd']]. inversion E1; subst. assumption. }
    repeat split.
    - assumption.
    - intro Hin. destruct (O p Hin) as [[]|Hf]. assumption.
    - intros [i [Hi [Hq|Hq]]].
      + subst p. destruct (Hd i Hi) as [pfi Hpfi]. apply lookup_In in Hpfi. unfold keys.
        apply in_map_iff. exists (i_file i, Some pfi). auto.
      + destruct (Hd i Hi) as [pfi Hpfi]. destruct (closure st He _ _ Hq _ Hpfi) as [pfq Hpfq].
        apply lookup_In in Hpfq. unfold keys. apply in_map_iff. exists (p, Some pfq). auto.
    - intros p Hin. unfold keys in Hin. apply in_map_iff in Hin. destruct Hin as [[p' x] [E1 Hin]]. simpl in E1. subst p'.
      destruct (Hall _ _ Hin) as [pf [_ Hdone]]. eauto.
    - intros p1 p2 pf1 pf2 H1 H2. eauto.
    - intros p x Hin. destruct (Hall _ _ Hin) as [pf [-> Hdone]].
      destruct (He _ _ Hdone) as [f [Hf [_ [Hm Hrules]]]]. exists pf, f. auto.
    - rewrite Hr. reflexivity.
  Qed.

  Theorem main_result : forall fuel mainf R,
    parse_main m fs fuel mainf = Ok R ->
    exists st pfm, parse_main_state m fs fuel mainf = Ok (st, pfm) /\
      R = pf_rules pfm ++ rules_of_state st /\
      (* no predicate of an imported file is redefined by main or by another imported file's rules *)
      (forall p pf n, In (p, Some pf) st -> In n (defined (pf_rules pf)) -> is_at n = false ->
         ~ In n (defined (pf_rules pfm))).
  Proof.
    intros fuel mainf R H. unfold parse_main in H. unfold parse_main_state.
    destruct (parse_file m fs fuel [] main_path mainf) as [[st pfm]|e] eqn:Ep; try discriminate.
    apply assemble_spec in H. destruct H as [HR Hno]. exists st, pfm. auto.
  Qed.

  (* successful run: every import statement names a predicate the exporter defines (or makes) and is used *)
  Lemma apply_imports_checks : forall st imps rs rs',
    apply_imports m st imps rs = Ok rs' ->
    forall k i, nth_error imps k = Some i ->
    exists pf, done st (i_file i) pf /\
      (In (pf_prefix pf ++ i_pred i) (defined (pf_rules pf) ++ made (pf_rules pf)) \/
       (m = Cpp /\ In (i_pred i) (defined (pf_rules pf) ++ made (pf_rules pf)))) /\
      count_all (imported_as i) (apply_renames (import_renames st (firstn k imps)) rs) <> 0.
  Proof.
    intros st. induction imps as [|j t IH]; intros rs rs' H k i Hk.
    - destruct k; discriminate.
    - simpl in H. destruct (lookup st (i_file j)) as [[pf|]|] eqn:El; try discriminate.
      destruct (negb _) eqn:En; try discriminate.
      destruct (Nat.eqb _ 0) eqn:Ec; try discriminate.
      destruct k as [|k]; simpl in Hk.
      + inversion Hk; subst j. exists pf. split. assumption. split.
        * apply negb_false_iff in En. apply orb_true_iff in En. destruct En as [En|En].
          -- left. apply mem_In. assumption.
          -- right. destruct m; try discriminate. split. reflexivity. apply mem_In. assumption.
        * simpl. apply Nat.eqb_neq in Ec. assumption.
      + destruct (IH _ _ H k i Hk) as [pf' [Hd [Hdef Hc]]]. exists pf'. split. assumption. split. assumption.
        simpl. rewrite El. assumption.
  Qed.
  (* a file that is reachable from main and lies on an import cycle: the driver never succeeds *)
  Theorem cycle_rejected : forall fuel mainf p,
    from_imports fs (f_imports mainf) p -> reach fs p p ->
    forall R, parse_main m fs fuel mainf <> Ok R.
  Proof.
    intros fuel mainf p Hfrom Hcyc R H.
    destruct (main_result _ _ _ H) as [st [pfm [Hs _]]].
    destruct (main_state_facts _ _ _ _ Hs) as [_ [Hreach [Hac _]]].
    apply (Hac p). apply Hreach. assumption. assumption.
  Qed.

  (* the flattened program: every file's rules under ONE simultaneous substitution per file *)
  Definition flat_spec (st : pstate) (mainf : file) : list rule :=
    map (subst_rule (first_match (file_renames st [] true mainf))) (f_rules mainf) ++
    flat_map (fun e => match snd e, fs (fst e) with
                       | Some pf, Some f =>
                           map (subst_rule (first_match (file_renames st (pf_prefix pf) false f))) (f_rules f)
                       | _, _ => []
                       end) st.

  Definition capture_free (st : pstate) (mainf : file) : Prop :=
    nocap (file_renames st [] true mainf) = true /\
    forall p pf f, In (p, Some pf) st -> fs p = Some f ->
      nocap (file_renames st (pf_prefix pf) false f) = true.

  Theorem flatten_equiv : forall fuel mainf R,
    parse_main m fs fuel mainf = Ok R ->
    exists st pfm, parse_main_state m fs fuel mainf = Ok (st, pfm) /\
      (capture_free st mainf -> R = flat_spec st mainf).
  Proof.
    intros fuel mainf R H. destruct (main_result _ _ _ H) as [st [pfm [Hs [HR _]]]].
    exists st, pfm. split. assumption. intros [Hc1 Hc2].
    destruct (main_state_facts _ _ _ _ Hs) as [_ [_ [_ [_ [Hent Hmain]]]]].
    rewrite HR, Hmain. unfold flat_spec. f_equal.
    - apply apply_renames_simultaneous. assumption.
    - unfold rules_of_state.
      assert (Hloc : forall l, (forall e, In e l -> In e st) ->
                flat_map (fun e => match snd e with Some pf => pf_rules pf | None => [] end) l =
                flat_map (fun e => match snd e, fs (fst e) with
                       | Some pf, Some f =>
                           map (subst_rule (first_match (file_renames st (pf_prefix pf) false f))) (f_rules f)
                       | _, _ => []
                       end) l).
      { induction l as [|[p x] l IH]; intro Hin; simpl; auto.
        rewrite IH by (intros e He; apply Hin; right; assumption). f_equal.
        destruct (Hent p x (Hin _ (or_introl eq_refl))) as [pf [f [-> [Hf [_ Hr]]]]].
        rewrite Hf, Hr. apply apply_renames_simultaneous. eapply Hc2; eauto.
        apply Hin. left. reflexivity. }
      apply Hloc. auto.
  Qed.
End DriverProofs.
