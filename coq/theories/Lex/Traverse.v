(* Model of parser_py/parse.py: Traverse (the single scanner for strings, comments, brackets),
   RemoveComments, IsWhole.  No proofs here (see TraverseProofs.v).

   Strings are lists of Unicode code points (N).  The scanner state of the code is a Python
   string used as a stack (last character = top); here a list with the top at the head.
   One call of [advance] mirrors one iteration of the `while` loop of Traverse for one
   character; look-ahead (c2, c3) is the [rest] argument.  Each character gets one annotation
   saying what the generator yields at that index. *)
From Coq Require Import List Bool Arith NArith Lia.
Import ListNotations.

Definition char := N.
Definition str := list char.
Definition stack := list char.

Definition ch_nl : char := 10%N.
Definition ch_dq : char := 34%N.   (* double quote *)
Definition ch_hash : char := 35%N. (* # *)
Definition ch_sq : char := 39%N.   (* single quote *)
Definition ch_lp : char := 40%N.
Definition ch_rp : char := 41%N.
Definition ch_star : char := 42%N.
Definition ch_slash : char := 47%N.
Definition ch_3 : char := 51%N.    (* the state letter '3' for triple-quoted strings *)
Definition ch_lb : char := 91%N.
Definition ch_bs : char := 92%N.   (* backslash *)
Definition ch_rb : char := 93%N.
Definition ch_bt : char := 96%N.   (* backtick *)
Definition ch_lc : char := 123%N.
Definition ch_bar : char := 124%N.
Definition ch_rc : char := 125%N.

Definition ceq (a b : char) : bool := N.eqb a b.

Definition is_open (c : char) : bool := ceq c ch_lp || ceq c ch_lc || ceq c ch_lb.
Definition close_to_open (c : char) : option char :=
  if ceq c ch_rp then Some ch_lp else if ceq c ch_rc then Some ch_lc
  else if ceq c ch_rb then Some ch_lb else None.

(* What Traverse yields at one index. *)
Inductive annot :=
| AOk (st : stack)     (* yield (idx, st, 'OK') *)
| ASilent              (* nothing yielded (comment characters) *)
| AEol (st : stack)    (* yield (idx, None, 'EOL in string') and then (idx, st, 'OK') *)
| AUnmatched           (* yield (idx, None, 'Unmatched'); the generator stops *)
| ADead.               (* after the generator stopped *)

Record stepres := mkres { sr_ann : annot; sr_pend : list annot; sr_st : stack; sr_stop : bool }.

Definition yield_ (st : stack) : stepres := mkres (AOk st) [] st false.
Definition silent (st : stack) : stepres := mkres ASilent [] st false.

(* `if track_parenthesis:` block followed by the final yield *)
Definition tracked (st : stack) (c : char) : stepres :=
  if is_open c then yield_ (c :: st)
  else match close_to_open c with
       | Some o => match st with
                   | t :: st' => if ceq t o then yield_ st' else mkres AUnmatched [] st true
                   | [] => mkres AUnmatched [] st true
                   end
       | None => yield_ st
       end.

Definition starts2 (a b : char) (c : char) (rest : str) : bool :=
  ceq c a && match rest with d :: _ => ceq d b | [] => false end.
Definition starts3 (q : char) (c : char) (rest : str) : bool :=
  ceq c q && match rest with d :: e :: _ => ceq d q && ceq e q | _ => false end.

(* the final `else:` branch: neither in a comment nor in a string *)
Definition code (st : stack) (c : char) (rest : str) : stepres :=
  if ceq c ch_hash then silent (ch_hash :: st)
  else if starts3 ch_dq c rest then
    mkres (AOk (ch_3 :: st)) [AOk (ch_3 :: st); AOk (ch_3 :: st)] (ch_3 :: st) false
  else if ceq c ch_dq then yield_ (ch_dq :: st)
  else if ceq c ch_sq then yield_ (ch_sq :: st)
  else if ceq c ch_bt then yield_ (ch_bt :: st)
  else if starts2 ch_slash ch_star c rest then mkres ASilent [ASilent] (ch_slash :: st) false
  else tracked st c.

Definition step (st : stack) (c : char) (rest : str) : stepres :=
  match st with
  | top :: below =>
    if ceq top ch_hash then
      (if ceq c ch_nl then yield_ below else silent st)
    else if ceq top ch_dq then
      (if ceq c ch_nl then mkres (AEol st) [] st false
       else if ceq c ch_dq then yield_ below else yield_ st)
    else if ceq top ch_sq then
      (if ceq c ch_sq then yield_ below
       else if ceq c ch_bs then yield_ (ch_bs :: st) else yield_ st)
    else if ceq top ch_bs then tracked below c
    else if ceq top ch_bt then
      (if ceq c ch_bt then yield_ below else yield_ st)
    else if ceq top ch_3 then
      (if starts3 ch_dq c rest then mkres (AOk below) [AOk below; AOk below] below false
       else yield_ st)
    else if ceq top ch_slash then
      (if starts2 ch_star ch_slash c rest then mkres ASilent [ASilent] below false else silent st)
    else code st c rest
  | [] => code st c rest
  end.

(* Scanner configuration between two characters. *)
Inductive cfg :=
| Run (pend : list annot) (st : stack)   (* pend: annotations already decided for the next characters *)
| Dead.

Definition advance (k : cfg) (c : char) (rest : str) : annot * cfg :=
  match k with
  | Dead => (ADead, Dead)
  | Run (a :: p) st => (a, Run p st)
  | Run [] st => let x := step st c rest in
                 (sr_ann x, if sr_stop x then Dead else Run (sr_pend x) (sr_st x))
  end.

Fixpoint ann (k : cfg) (s : str) : list annot :=
  match s with
  | [] => []
  | c :: r => let '(a, k') := advance k c r in a :: ann k' r
  end.

Definition start : cfg := Run [] [].
Definition traverse (s : str) : list annot := ann start s.

(* RemoveComments *)
Inductive rcres := RcOk (out : str) | RcUnmatched (idx : nat) | RcEol (idx : nat).
Definition rc_cons (c : char) (r : rcres) : rcres :=
  match r with RcOk o => RcOk (c :: o) | e => e end.
Fixpoint rc_go (idx : nat) (s : str) (a : list annot) : rcres :=
  match s, a with
  | c :: s', AOk _ :: a' => rc_cons c (rc_go (S idx) s' a')
  | _ :: s', ASilent :: a' => rc_go (S idx) s' a'
  | _ :: s', ADead :: a' => rc_go (S idx) s' a'
  | _ :: _, AEol _ :: _ => RcEol idx
  | _ :: _, AUnmatched :: _ => RcUnmatched idx
  | _, _ => RcOk []
  end.
Definition rc_from (k : cfg) (s : str) : rcres := rc_go 0 s (ann k s).
Definition remove_comments (s : str) : rcres := rc_from start s.

(* the output text only (None when RemoveComments raises) *)
Fixpoint visible (s : str) (a : list annot) : option str :=
  match s, a with
  | c :: s', AOk _ :: a' => option_map (cons c) (visible s' a')
  | _ :: s', ASilent :: a' => visible s' a'
  | _ :: s', ADead :: a' => visible s' a'
  | _ :: _, _ :: _ => None
  | _, _ => Some []
  end.

(* IsWhole: status and state of the last yielded triple *)
Fixpoint last_event (a : list annot) (acc : option annot) : option annot :=
  match a with
  | [] => acc
  | ASilent :: a' => last_event a' acc
  | ADead :: a' => last_event a' acc
  | x :: a' => last_event a' (Some x)
  end.
Definition whole_of (a : list annot) : bool :=
  match last_event a None with
  | None => true
  | Some (AOk []) => true
  | Some (AEol []) => true
  | Some _ => false
  end.
Definition is_whole (s : str) : bool := whole_of (traverse s).

(* state in which ordinary code is read: empty or an opening bracket on top *)
Definition code_state (st : stack) : bool :=
  match st with [] => true | t :: _ => is_open t end.
