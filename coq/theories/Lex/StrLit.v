(* C10 — string literals: model of the emitters' building blocks and the Spec lexers.

   Strings are `list N`: a list of character codes.  Every definition treats all codes >= 128
   as ordinary characters, so the same definitions read as Python code points and as
   UTF-8 bytes on the wire (the harness evaluates them on UTF-8 bytes).

   This file has NO proofs and does NOT depend on coq/gen: the lexers are the Spec and stay
   runnable when the generated emitter tables or a proof break.

   MODEL (of the implementation, tied by translators/strlit.py + props/c10.py):
     replace_all, apply_steps, json_dumps, emit_of          <- QL.StrLiteral
     build_flags, round_flags, use_flags, dollar_params      <- universe.py flag machinery
     parse_string_raw                                        <- parse.ParseString, the two raw forms
   SPEC (hand written from the engines' documented lexical rules; trusted):
     lex_std (SQLite, PostgreSQL standard_conforming_strings=on, Presto, Trino)
     lex_estr (DuckDB / PostgreSQL  E'...')   lex_bq (BigQuery <dq>...<dq>)
     lex_dbx (Databricks / Spark SQL <dq>...<dq>)   lex_ch (ClickHouse '...') *)
From Coq Require Import List NArith Bool.
Import ListNotations.
Open Scope N_scope.

Definition str := list N.

Fixpoint str_eqb (a b : str) : bool :=
  match a, b with
  | [], [] => true
  | x :: a', y :: b' => (x =? y) && str_eqb a' b'
  | _, _ => false
  end.

(* ------------------------------------------------------------------ *)
(* Python str.replace(pat, v) for a non-empty pat: leftmost, non-overlapping. *)

Fixpoint starts_with (pat s : str) : bool :=
  match pat, s with
  | [], _ => true
  | p :: pat', c :: s' => (p =? c) && starts_with pat' s'
  | _ :: _, [] => false
  end.

(* skip: how many characters of the current match are still to be dropped *)
Fixpoint repl (pat v : str) (skip : nat) (s : str) : str :=
  match s with
  | [] => []
  | c :: t =>
      match skip with
      | S k => repl pat v k t
      | O => if starts_with pat s then v ++ repl pat v (length pat - 1) t
             else c :: repl pat v 0 t
      end
  end.

Definition replace_all (pat v s : str) : str := repl pat v 0 s.

(* s.replace(f1, t1).replace(f2, t2)...  in source order *)
Definition apply_steps (steps : list (str * str)) (s : str) : str :=
  fold_left (fun acc p => replace_all (fst p) (snd p) acc) steps s.

(* ------------------------------------------------------------------ *)
(* json.dumps(s, ensure_ascii=False): json.encoder.ESCAPE / ESCAPE_DCT *)

Definition hexd (n : N) : N := if n <? 10 then 48 + n else 87 + n.   (* lowercase, as {0:04x} *)

Definition json_esc (c : N) : str :=
  if c =? 34 then [92; 34]
  else if c =? 92 then [92; 92]
  else if c =? 10 then [92; 110]
  else if c =? 13 then [92; 114]
  else if c =? 9 then [92; 116]
  else if c =? 8 then [92; 98]
  else if c =? 12 then [92; 102]
  else if c <? 32 then [92; 117; 48; 48; hexd (c / 16); hexd (c mod 16)]
  else [c].

Definition json_dumps (s : str) : str := 34 :: flat_map json_esc s ++ [34].

(* What QL.StrLiteral does for one dialect, as read from the source by translators/strlit.py *)
Inductive emit_kind :=
| Wrap (pre suf : str) (steps : list (str * str))   (* pre + s.replace(..)... + suf *)
| JsonDumps.

Definition emit_of (k : emit_kind) (s : str) : str :=
  match k with
  | Wrap pre suf steps => pre ++ apply_steps steps s ++ suf
  | JsonDumps => json_dumps s
  end.

(* ------------------------------------------------------------------ *)
(* SPEC: string literal lexers.  lex l = Some (value, rest): l starts with one complete string
   literal denoting value and rest is what follows it; None: no well-formed literal here. *)

Definition res := option (str * str).

Definition push (c : N) (r : res) : res :=
  match r with Some (s, t) => Some (c :: s, t) | None => None end.

Definition is_oct (c : N) : bool := (48 <=? c) && (c <=? 55).

Definition hexv (c : N) : option N :=
  if (48 <=? c) && (c <=? 57) then Some (c - 48)
  else if (97 <=? c) && (c <=? 102) then Some (c - 87)
  else if (65 <=? c) && (c <=? 70) then Some (c - 55)
  else None.

Fixpoint hexs (ds : str) (acc : N) : option N :=
  match ds with
  | [] => Some acc
  | d :: r => match hexv d with Some v => hexs r (acc * 16 + v) | None => None end
  end.

(* --- standard SQL: '...' with '' for a quote, nothing else special --- *)
Fixpoint std_body (l : str) : res :=
  match l with
  | [] => None
  | c :: t =>
      if c =? 39 then
        match t with
        | c2 :: t2 => if c2 =? 39 then push 39 (std_body t2) else Some ([], t)
        | [] => Some ([], [])
        end
      else push c (std_body t)
  end.

Definition lex_std (l : str) : res :=
  match l with
  | c :: t => if c =? 39 then std_body t else None
  | [] => None
  end.

(* --- E'...' (PostgreSQL scan.l <xe>, used by DuckDB): '' ; \b \f \n \r \t \v ; \o \oo \ooo ;
       \xh \xhh ; \uXXXX ; \UXXXXXXXX ; backslash + any other character = that character --- *)
Definition estr_single (e : N) : N :=
  if e =? 98 then 8 else if e =? 102 then 12 else if e =? 110 then 10
  else if e =? 114 then 13 else if e =? 116 then 9 else if e =? 118 then 11 else e.

Fixpoint estr_body (l : str) : res :=
  match l with
  | [] => None
  | c :: t =>
      if c =? 39 then
        match t with
        | c2 :: t2 => if c2 =? 39 then push 39 (estr_body t2) else Some ([], t)
        | [] => Some ([], [])
        end
      else if c =? 92 then
        match t with
        | [] => None
        | e :: t1 =>
            if e =? 117 then
              match t1 with
              | a :: b :: c' :: d :: t5 =>
                  match hexs [a; b; c'; d] 0 with Some v => push v (estr_body t5) | None => None end
              | _ => None
              end
            else if e =? 85 then
              match t1 with
              | a :: b :: c' :: d :: a2 :: b2 :: c2 :: d2 :: t9 =>
                  match hexs [a; b; c'; d; a2; b2; c2; d2] 0 with
                  | Some v => push v (estr_body t9) | None => None end
              | _ => None
              end
            else if e =? 120 then
              match t1 with
              | a :: t2 =>
                  match hexv a with
                  | None => push 120 (estr_body t1)
                  | Some va =>
                      match t2 with
                      | b :: t3 =>
                          match hexv b with
                          | Some vb => push (va * 16 + vb) (estr_body t3)
                          | None => push va (estr_body t2)
                          end
                      | [] => push va (estr_body t2)
                      end
                  end
              | [] => None
              end
            else if is_oct e then
              match t1 with
              | o2 :: t2 =>
                  if is_oct o2 then
                    match t2 with
                    | o3 :: t3 =>
                        if is_oct o3
                        then push (((e - 48) * 64 + (o2 - 48) * 8 + (o3 - 48)) mod 256) (estr_body t3)
                        else push ((e - 48) * 8 + (o2 - 48)) (estr_body t2)
                    | [] => push ((e - 48) * 8 + (o2 - 48)) (estr_body t2)
                    end
                  else push (e - 48) (estr_body t1)
              | [] => None
              end
            else push (estr_single e) (estr_body t1)
        end
      else push c (estr_body t)
  end.

Definition lex_estr (l : str) : res :=
  match l with
  | e :: q :: t => if ((e =? 69) || (e =? 101)) && (q =? 39) then estr_body t else None
  | _ => None
  end.

(* --- BigQuery <dq>...<dq>: no raw newline; \a \b \f \n \r \t \v \\ \? \<dq> \' \` ; \ooo ; \xhh \Xhh ;
       \uhhhh ; \Uhhhhhhhh ; any other escape is an error --- *)
Definition bq_single (e : N) : option N :=
  if e =? 97 then Some 7 else if e =? 98 then Some 8 else if e =? 102 then Some 12
  else if e =? 110 then Some 10 else if e =? 114 then Some 13 else if e =? 116 then Some 9
  else if e =? 118 then Some 11 else if e =? 92 then Some 92 else if e =? 63 then Some 63
  else if e =? 34 then Some 34 else if e =? 39 then Some 39 else if e =? 96 then Some 96
  else None.

Fixpoint bq_body (l : str) : res :=
  match l with
  | [] => None
  | c :: t =>
      if c =? 34 then Some ([], t)
      else if (c =? 10) || (c =? 13) then None
      else if c =? 92 then
        match t with
        | [] => None
        | e :: t1 =>
            if e =? 117 then
              match t1 with
              | a :: b :: c' :: d :: t5 =>
                  match hexs [a; b; c'; d] 0 with Some v => push v (bq_body t5) | None => None end
              | _ => None
              end
            else if e =? 85 then
              match t1 with
              | a :: b :: c' :: d :: a2 :: b2 :: c2 :: d2 :: t9 =>
                  match hexs [a; b; c'; d; a2; b2; c2; d2] 0 with
                  | Some v => push v (bq_body t9) | None => None end
              | _ => None
              end
            else if (e =? 120) || (e =? 88) then
              match t1 with
              | a :: b :: t3 =>
                  match hexs [a; b] 0 with Some v => push v (bq_body t3) | None => None end
              | _ => None
              end
            else if (48 <=? e) && (e <=? 51) then
              match t1 with
              | o2 :: o3 :: t3 =>
                  if is_oct o2 && is_oct o3
                  then push ((e - 48) * 64 + (o2 - 48) * 8 + (o3 - 48)) (bq_body t3)
                  else None
              | _ => None
              end
            else
              match bq_single e with Some v => push v (bq_body t1) | None => None end
        end
      else push c (bq_body t)
  end.

Definition lex_bq (l : str) : res :=
  match l with
  | c :: t => if c =? 34 then bq_body t else None
  | [] => None
  end.

(* --- Databricks / Spark SQL <dq>...<dq> (SparkParserUtils.unescapeSQLString, documented under
       STRING type, literals): \uXXXX, \UXXXXXXXX, \ooo (first digit 0-3); \0 \b \n \r \t \Z;
       \% and \_ keep the backslash; backslash + any other character = that character
       (in particular  \f  is the letter f) --- *)
Definition dbx_escaped (e : N) (r : res) : res :=
  if e =? 48 then push 0 r else if e =? 98 then push 8 r else if e =? 110 then push 10 r
  else if e =? 114 then push 13 r else if e =? 116 then push 9 r else if e =? 90 then push 26 r
  else if e =? 37 then push 92 (push 37 r) else if e =? 95 then push 92 (push 95 r)
  else push e r.

Fixpoint dbx_body (l : str) : res :=
  match l with
  | [] => None
  | c :: t =>
      if c =? 34 then Some ([], t)
      else if c =? 92 then
        match t with
        | [] => None
        | e :: t1 =>
            let plain := dbx_escaped e (dbx_body t1) in
            if e =? 117 then
              match t1 with
              | a :: b :: c' :: d :: t5 =>
                  match hexs [a; b; c'; d] 0 with Some v => push v (dbx_body t5) | None => plain end
              | _ => plain
              end
            else if e =? 85 then
              match t1 with
              | a :: b :: c' :: d :: a2 :: b2 :: c2 :: d2 :: t9 =>
                  match hexs [a; b; c'; d; a2; b2; c2; d2] 0 with
                  | Some v => push v (dbx_body t9) | None => plain end
              | _ => plain
              end
            else if (48 <=? e) && (e <=? 51) then
              match t1 with
              | o2 :: o3 :: t3 =>
                  if is_oct o2 && is_oct o3
                  then push ((e - 48) * 64 + (o2 - 48) * 8 + (o3 - 48)) (dbx_body t3)
                  else plain
              | _ => plain
              end
            else plain
        end
      else push c (dbx_body t)
  end.

Definition lex_dbx (l : str) : res :=
  match l with
  | c :: t => if c =? 34 then dbx_body t else None
  | [] => None
  end.

(* --- ClickHouse '...' (docs, Syntax, String): '' ; \\ \' \b \f \r \n \t \0 \a \v \xHH ;
       before any other character the backslash is kept literally --- *)
Definition ch_single (e : N) : option N :=
  if e =? 92 then Some 92 else if e =? 39 then Some 39 else if e =? 98 then Some 8
  else if e =? 102 then Some 12 else if e =? 114 then Some 13 else if e =? 110 then Some 10
  else if e =? 116 then Some 9 else if e =? 48 then Some 0 else if e =? 97 then Some 7
  else if e =? 118 then Some 11 else None.

Fixpoint ch_body (l : str) : res :=
  match l with
  | [] => None
  | c :: t =>
      if c =? 39 then
        match t with
        | c2 :: t2 => if c2 =? 39 then push 39 (ch_body t2) else Some ([], t)
        | [] => Some ([], [])
        end
      else if c =? 92 then
        match t with
        | [] => None
        | e :: t1 =>
            if e =? 120 then
              match t1 with
              | a :: b :: t3 =>
                  match hexs [a; b] 0 with Some v => push v (ch_body t3) | None => None end
              | _ => None
              end
            else
              match ch_single e with
              | Some v => push v (ch_body t1)
              | None => push 92 (push e (ch_body t1))
              end
        end
      else push c (ch_body t)
  end.

Definition lex_ch (l : str) : res :=
  match l with
  | c :: t => if c =? 39 then ch_body t else None
  | [] => None
  end.

(* Which lexer reads the literals of which dialect (names as dialects.py Name() returns them). *)
Inductive lexer_id := LStd | LEstr | LBq | LDbx | LCh.

Definition run_lexer (x : lexer_id) : str -> res :=
  match x with LStd => lex_std | LEstr => lex_estr | LBq => lex_bq | LDbx => lex_dbx | LCh => lex_ch end.

(* the character that may not follow the literal directly (it would continue it) *)
Definition quote_of (x : lexer_id) : N :=
  match x with LStd | LEstr | LCh => 39 | LBq | LDbx => 34 end.

Definition no_quote_start (q : N) (rest : str) : Prop :=
  match rest with [] => True | c :: _ => c <> q end.

Definition no_quote_startb (q : N) (rest : str) : bool :=
  match rest with [] => true | c :: _ => negb (c =? q) end.

(* dialect names as dialects.py Name() returns them (hand written: part of the Spec) *)
Definition n_BigQuery : str := [66; 105; 103; 81; 117; 101; 114; 121].
Definition n_ClickHouse : str := [67; 108; 105; 99; 107; 72; 111; 117; 115; 101].
Definition n_Databricks : str := [68; 97; 116; 97; 98; 114; 105; 99; 107; 115].
Definition n_DuckDB : str := [68; 117; 99; 107; 68; 66].
Definition n_PostgreSQL : str := [80; 111; 115; 116; 103; 114; 101; 83; 81; 76].
Definition n_Presto : str := [80; 114; 101; 115; 116; 111].
Definition n_SqLite : str := [83; 113; 76; 105; 116; 101].
Definition n_Trino : str := [84; 114; 105; 110; 111].

(* SPEC: which engine's lexical rules read the literal of which dialect.  The prefix that the
   DuckDB emitter writes (E'...') selects the escape-string rules there. *)
Definition lexer_for (name : str) : option lexer_id :=
  if str_eqb name n_SqLite || str_eqb name n_PostgreSQL || str_eqb name n_Presto || str_eqb name n_Trino
  then Some LStd
  else if str_eqb name n_DuckDB then Some LEstr
  else if str_eqb name n_BigQuery then Some LBq
  else if str_eqb name n_Databricks then Some LDbx
  else if str_eqb name n_ClickHouse then Some LCh
  else None.

(* executable judgement for the harness: 0 = the lexer reads out ++ rest back as (s, rest), 2 = not *)
Definition res_eqb (r : res) (s rest : str) : bool :=
  match r with Some (a, b) => str_eqb a s && str_eqb b rest | None => false end.

Definition judge_lex (lx : lexer_id) (s out rest : str) : N :=
  if res_eqb (run_lexer lx (out ++ rest)) s rest then 0 else 2.


(* the same for a literal found inside SQL text: text = literal ++ suffix *)
Definition judge_text (name s text suffix : str) : N :=
  match lexer_for name with
  | Some lx => if res_eqb (run_lexer lx text) s suffix then 0 else 2
  | None => 2
  end.

(* ------------------------------------------------------------------ *)
(* MODEL: flags.  Annotations.BuildFlagValues: dicts are insertion ordered association lists. *)

Fixpoint lookup (k : str) (m : list (str * str)) : option str :=
  match m with
  | [] => None
  | (k', v) :: m' => if str_eqb k k' then Some v else lookup k m'
  end.

(* dict[k] = v : existing key keeps its position, new key goes last *)
Fixpoint dict_set (k v : str) (m : list (str * str)) : list (str * str) :=
  match m with
  | [] => [(k, v)]
  | (k', v') :: m' => if str_eqb k k' then (k', v) :: m' else (k', v') :: dict_set k v m'
  end.

Definition dict_update (m upd : list (str * str)) : list (str * str) :=
  fold_left (fun acc kv => dict_set (fst kv) (snd kv) acc) upd m.

Definition mem_key (k : str) (m : list (str * str)) : bool :=
  match lookup k m with Some _ => true | None => false end.

Definition system_flag : str :=   (* logica_default_engine *)
  [108;111;103;105;99;97;95;100;101;102;97;117;108;116;95;101;110;103;105;110;101].

(* defaults / resets / user: what @DefineFlag, @ResetFlagValue and the caller give, in order
   (a missing default is already replaced by ${flag} by the caller of the model).
   None = RuleCompileException Undefined flags used. *)
Definition build_flags (defaults resets user : list (str * str)) : option (list (str * str)) :=
  if forallb (fun kv => mem_key (fst kv) defaults || str_eqb (fst kv) system_flag) user
  then Some (dict_update (dict_update (dict_update [] defaults) resets) user)
  else None.

Definition flag_pat (f : str) : str := 36 :: 123 :: f ++ [125].        (* ${ + f + } *)

(* one pass of  for flag, value in flag_values.items(): sql = sql.replace('${flag}', value) *)
Definition round_flags (flags : list (str * str)) (sql : str) : str :=
  fold_left (fun acc fv => replace_all (flag_pat (fst fv)) (snd fv) acc) flags sql.

(* LogicaProgram.UseFlagsAsParameters: n = rounds still allowed; None = recursive flags error *)
Fixpoint flags_loop (n : nat) (flags : list (str * str)) (prev sql : str) : option str :=
  if str_eqb sql prev then Some sql
  else match n with
       | O => None
       | S k => flags_loop k flags sql (round_flags flags sql)
       end.

Definition use_flags (flags : list (str * str)) (sql : str) : option str :=
  flags_loop 100 flags [] sql.

(* FlagValue(f) in dialect kind k: the flag's value through the SAME emitter as a literal *)
Definition flag_literal (k : emit_kind) (flags : list (str * str)) (f : str) : option str :=
  match lookup f flags with Some v => Some (emit_of k v) | None => None end.

(* re.findall(r'[$][{](.*?)[}]', s): names between ${ and the nearest } on the same line.
   cur = Some acc while inside ${ (acc reversed). *)
Fixpoint dollar_scan (cur : option str) (s : str) : list str :=
  match s with
  | [] => []
  | c :: t =>
      match cur with
      | Some acc =>
          if c =? 125 then rev acc :: dollar_scan None t
          else if c =? 10 then dollar_scan None t
          else dollar_scan (Some (c :: acc)) t
      | None =>
          if c =? 36 then
            match t with
            | c2 :: t2 => if c2 =? 123 then dollar_scan (Some []) t2 else dollar_scan None t
            | [] => []
            end
          else dollar_scan None t
      end
  end.

Definition is_builtin_param (p : str) : bool :=      (* startswith('YYYY') or 'MM' or 'DD' *)
  starts_with [89; 89; 89; 89] p || str_eqb p [77; 77] || str_eqb p [68; 68].

Definition dollar_params (s : str) : list str :=
  filter (fun p => negb (is_builtin_param p)) (dollar_scan None s).

(* ------------------------------------------------------------------ *)
(* MODEL: parse.ParseString, the two raw forms:  <dq>...<dq>  (no <dq> inside)  and  <dq><dq><dq>...<dq><dq><dq>  *)

Fixpoint has_sub (pat s : str) : bool :=
  match s with
  | [] => starts_with pat []
  | _ :: t => starts_with pat s || has_sub pat t
  end.

Definition q3 : str := [34; 34; 34].

Definition parse_string_raw (l : str) : option str :=
  match l with
  | 34 :: t =>
      match rev t with
      | 34 :: m =>
          let meat := rev m in
          if negb (existsb (N.eqb 34) meat) then Some meat
          else match meat with
               | 34 :: 34 :: t3 =>
                   match rev t3 with
                   | 34 :: 34 :: m3 =>
                       if has_sub q3 (rev m3) then None else Some (rev m3)
                   | _ => None
                   end
               | _ => None
               end
      | _ => None
      end
  | _ => None
  end.
