(* Proofs about the scanner model (Lex/Traverse.v): comments are transparent, string
   contents are opaque.  All statements are for every scanner state that reads code, every
   comment / string body and every continuation of the text. *)
From Coq Require Import List Bool Arith NArith Lia.
Import ListNotations.
From LV Require Import Lex.Traverse.

Local Arguments step : simpl never.
Local Arguments code : simpl never.
Local Arguments ceq : simpl never.

Lemma ceq_true : forall a b, ceq a b = true -> a = b.
Proof. intros a b H. apply N.eqb_eq. exact H. Qed.
Lemma ceq_refl : forall a, ceq a a = true.
Proof. intros. apply N.eqb_refl. Qed.

Lemma is_open_cases : forall t, is_open t = true -> t = ch_lp \/ t = ch_lc \/ t = ch_lb.
Proof.
  intros t H. unfold is_open in H.
  apply orb_true_iff in H. destruct H as [H|H].
  - apply orb_true_iff in H. destruct H as [H|H]; apply ceq_true in H; auto.
  - apply ceq_true in H; auto.
Qed.

Lemma step_code : forall st c r, code_state st = true -> step st c r = code st c r.
Proof.
  intros st c r H. destruct st as [|t st]; [reflexivity|].
  simpl in H. apply is_open_cases in H. destruct H as [H|[H|H]]; subst t; reflexivity.
Qed.

Lemma step_slash : forall st c r,
  step (ch_slash :: st) c r =
  if starts2 ch_star ch_slash c r then mkres ASilent [ASilent] st false else silent (ch_slash :: st).
Proof. reflexivity. Qed.
Lemma step_hash : forall st c r,
  step (ch_hash :: st) c r = if ceq c ch_nl then yield_ st else silent (ch_hash :: st).
Proof. reflexivity. Qed.
Lemma step_dq : forall st c r,
  step (ch_dq :: st) c r =
  if ceq c ch_nl then mkres (AEol (ch_dq :: st)) [] (ch_dq :: st) false
  else if ceq c ch_dq then yield_ st else yield_ (ch_dq :: st).
Proof. reflexivity. Qed.
Lemma step_bt : forall st c r,
  step (ch_bt :: st) c r = if ceq c ch_bt then yield_ st else yield_ (ch_bt :: st).
Proof. reflexivity. Qed.
Lemma step_sq : forall st c r,
  step (ch_sq :: st) c r =
  if ceq c ch_sq then yield_ st
  else if ceq c ch_bs then yield_ (ch_bs :: ch_sq :: st) else yield_ (ch_sq :: st).
Proof. reflexivity. Qed.
Lemma step_3 : forall st c r,
  step (ch_3 :: st) c r =
  if starts3 ch_dq c r then mkres (AOk st) [AOk st; AOk st] st false else yield_ (ch_3 :: st).
Proof. reflexivity. Qed.

(* ------------------------------------------------------------------ *)
(* block comments *)

(* the body contains no star-slash *)
Fixpoint no_close (b : str) : bool :=
  match b with
  | c :: r => negb (ceq c ch_star && match r with d :: _ => ceq d ch_slash | [] => false end)
              && no_close r
  | [] => true
  end.

Lemma in_block_comment : forall st body rest, no_close body = true ->
  ann (Run [] (ch_slash :: st)) (body ++ ch_star :: ch_slash :: rest) =
  repeat ASilent (length body + 2) ++ ann (Run [] st) rest.
Proof.
  intros st body rest. induction body as [|c b IH]; intro H.
  - reflexivity.
  - simpl in H. apply andb_true_iff in H. destruct H as [H1 H2].
    simpl app. simpl ann. rewrite step_slash.
    assert (E : starts2 ch_star ch_slash c (b ++ ch_star :: ch_slash :: rest) = false).
    { unfold starts2. destruct (ceq c ch_star) eqn:Ec; [|reflexivity]. simpl.
      destruct b as [|d b']; [reflexivity|]. simpl. simpl in H1.
      destruct (ceq d ch_slash); [discriminate|reflexivity]. }
    rewrite E. simpl. rewrite IH by assumption. reflexivity.
Qed.

Theorem block_comment_transparent : forall st body rest,
  code_state st = true -> no_close body = true ->
  ann (Run [] st) (ch_slash :: ch_star :: body ++ ch_star :: ch_slash :: rest) =
  repeat ASilent (length body + 4) ++ ann (Run [] st) rest.
Proof.
  intros st body rest Hc Hb. simpl ann. rewrite step_code by assumption.
  change (code st ch_slash (ch_star :: body ++ ch_star :: ch_slash :: rest))
    with (mkres ASilent [ASilent] (ch_slash :: st) false).
  simpl. rewrite in_block_comment by assumption.
  replace (length body + 4) with (S (S (length body + 2))) by lia. reflexivity.
Qed.

(* ------------------------------------------------------------------ *)
(* line comments *)
Definition no_char (q : char) (b : str) : bool := forallb (fun c => negb (ceq c q)) b.

Lemma in_line_comment : forall st body rest, no_char ch_nl body = true ->
  ann (Run [] (ch_hash :: st)) (body ++ ch_nl :: rest) =
  repeat ASilent (length body) ++ AOk st :: ann (Run [] st) rest.
Proof.
  intros st body rest. induction body as [|c b IH]; intro H.
  - reflexivity.
  - simpl in H. apply andb_true_iff in H. destruct H as [H1 H2].
    simpl app. simpl ann. rewrite step_hash.
    destruct (ceq c ch_nl); [discriminate|]. simpl. rewrite IH by assumption. reflexivity.
Qed.

Lemma in_line_comment_eof : forall st body, no_char ch_nl body = true ->
  ann (Run [] (ch_hash :: st)) body = repeat ASilent (length body).
Proof.
  intros st body. induction body as [|c b IH]; intro H.
  - reflexivity.
  - simpl in H. apply andb_true_iff in H. destruct H as [H1 H2].
    simpl ann. rewrite step_hash.
    destruct (ceq c ch_nl); [discriminate|]. simpl. rewrite IH by assumption. reflexivity.
Qed.

Theorem line_comment_transparent : forall st body rest,
  code_state st = true -> no_char ch_nl body = true ->
  ann (Run [] st) (ch_hash :: body ++ ch_nl :: rest) =
  repeat ASilent (S (length body)) ++ AOk st :: ann (Run [] st) rest.
Proof.
  intros st body rest Hc Hb. simpl ann. rewrite step_code by assumption.
  change (code st ch_hash (body ++ ch_nl :: rest)) with (silent (ch_hash :: st)).
  simpl. rewrite in_line_comment by assumption. reflexivity.
Qed.

Theorem line_comment_at_eof : forall st body,
  code_state st = true -> no_char ch_nl body = true ->
  ann (Run [] st) (ch_hash :: body) = repeat ASilent (S (length body)).
Proof.
  intros st body Hc Hb. simpl ann. rewrite step_code by assumption.
  change (code st ch_hash body) with (silent (ch_hash :: st)).
  simpl. rewrite in_line_comment_eof by assumption. reflexivity.
Qed.

(* ------------------------------------------------------------------ *)
(* string literals *)

Lemma in_dq : forall st body rest,
  no_char ch_dq body = true -> no_char ch_nl body = true ->
  ann (Run [] (ch_dq :: st)) (body ++ ch_dq :: rest) =
  repeat (AOk (ch_dq :: st)) (length body) ++ AOk st :: ann (Run [] st) rest.
Proof.
  intros st body rest. induction body as [|c b IH]; intros H1 H2.
  - reflexivity.
  - simpl in H1, H2. apply andb_true_iff in H1. destruct H1 as [H1 H1'].
    apply andb_true_iff in H2. destruct H2 as [H2 H2'].
    simpl app. simpl ann. rewrite step_dq.
    destruct (ceq c ch_nl); [discriminate|]. destruct (ceq c ch_dq); [discriminate|].
    simpl. rewrite IH by assumption. reflexivity.
Qed.

(* the opening quote is not the start of a triple quote *)
Definition not_triple (body rest : str) : Prop :=
  body = [] -> match rest with d :: _ => ceq d ch_dq = false | [] => True end.

Theorem string_opaque_dq : forall st body rest,
  code_state st = true -> no_char ch_dq body = true -> no_char ch_nl body = true ->
  not_triple body rest ->
  ann (Run [] st) (ch_dq :: body ++ ch_dq :: rest) =
  repeat (AOk (ch_dq :: st)) (S (length body)) ++ AOk st :: ann (Run [] st) rest.
Proof.
  intros st body rest Hc H1 H2 H3. simpl ann. rewrite step_code by assumption.
  assert (E : code st ch_dq (body ++ ch_dq :: rest) = yield_ (ch_dq :: st)).
  { unfold code. change (ceq ch_dq ch_hash) with false. cbv iota.
    assert (E3 : starts3 ch_dq ch_dq (body ++ ch_dq :: rest) = false).
    { unfold starts3. rewrite ceq_refl. simpl.
      destruct body as [|c b].
      - simpl. destruct rest as [|d r]; [reflexivity|]. exact (H3 eq_refl).
      - simpl in H1. apply andb_true_iff in H1. destruct H1 as [H1 _].
        simpl. destruct (ceq c ch_dq); [discriminate|]. destruct (b ++ ch_dq :: rest); reflexivity. }
    rewrite E3. rewrite ceq_refl. reflexivity. }
  rewrite E. simpl. rewrite in_dq by assumption. reflexivity.
Qed.

Lemma in_bt : forall st body rest, no_char ch_bt body = true ->
  ann (Run [] (ch_bt :: st)) (body ++ ch_bt :: rest) =
  repeat (AOk (ch_bt :: st)) (length body) ++ AOk st :: ann (Run [] st) rest.
Proof.
  intros st body rest. induction body as [|c b IH]; intros H1.
  - reflexivity.
  - simpl in H1. apply andb_true_iff in H1. destruct H1 as [H1 H1'].
    simpl app. simpl ann. rewrite step_bt. destruct (ceq c ch_bt); [discriminate|].
    simpl. rewrite IH by assumption. reflexivity.
Qed.

Theorem string_opaque_backtick : forall st body rest,
  code_state st = true -> no_char ch_bt body = true ->
  ann (Run [] st) (ch_bt :: body ++ ch_bt :: rest) =
  repeat (AOk (ch_bt :: st)) (S (length body)) ++ AOk st :: ann (Run [] st) rest.
Proof.
  intros st body rest Hc H1. simpl ann. rewrite step_code by assumption.
  change (code st ch_bt (body ++ ch_bt :: rest)) with (yield_ (ch_bt :: st)).
  simpl. rewrite in_bt by assumption. reflexivity.
Qed.

Lemma in_sq : forall st body rest, no_char ch_sq body = true -> no_char ch_bs body = true ->
  ann (Run [] (ch_sq :: st)) (body ++ ch_sq :: rest) =
  repeat (AOk (ch_sq :: st)) (length body) ++ AOk st :: ann (Run [] st) rest.
Proof.
  intros st body rest. induction body as [|c b IH]; intros H1 H2.
  - reflexivity.
  - simpl in H1, H2. apply andb_true_iff in H1. destruct H1 as [H1 H1'].
    apply andb_true_iff in H2. destruct H2 as [H2 H2'].
    simpl app. simpl ann. rewrite step_sq.
    destruct (ceq c ch_sq); [discriminate|]. destruct (ceq c ch_bs); [discriminate|].
    simpl. rewrite IH by assumption. reflexivity.
Qed.

Theorem string_opaque_sq : forall st body rest,
  code_state st = true -> no_char ch_sq body = true -> no_char ch_bs body = true ->
  ann (Run [] st) (ch_sq :: body ++ ch_sq :: rest) =
  repeat (AOk (ch_sq :: st)) (S (length body)) ++ AOk st :: ann (Run [] st) rest.
Proof.
  intros st body rest Hc H1 H2. simpl ann. rewrite step_code by assumption.
  change (code st ch_sq (body ++ ch_sq :: rest)) with (yield_ (ch_sq :: st)).
  simpl. rewrite in_sq by assumption. reflexivity.
Qed.

Lemma in_triple : forall st body rest, no_char ch_dq body = true ->
  ann (Run [] (ch_3 :: st)) (body ++ ch_dq :: ch_dq :: ch_dq :: rest) =
  repeat (AOk (ch_3 :: st)) (length body) ++ repeat (AOk st) 3 ++ ann (Run [] st) rest.
Proof.
  intros st body rest. induction body as [|c b IH]; intros H1.
  - reflexivity.
  - simpl in H1. apply andb_true_iff in H1. destruct H1 as [H1 H1'].
    simpl app. simpl ann. rewrite step_3. unfold starts3.
    destruct (ceq c ch_dq); [discriminate|].
    simpl. rewrite IH by assumption. reflexivity.
Qed.

Theorem string_opaque_triple : forall st body rest,
  code_state st = true -> no_char ch_dq body = true ->
  ann (Run [] st) (ch_dq :: ch_dq :: ch_dq :: body ++ ch_dq :: ch_dq :: ch_dq :: rest) =
  repeat (AOk (ch_3 :: st)) (length body + 3) ++ repeat (AOk st) 3 ++ ann (Run [] st) rest.
Proof.
  intros st body rest Hc H1. simpl ann. rewrite step_code by assumption.
  change (code st ch_dq (ch_dq :: ch_dq :: body ++ ch_dq :: ch_dq :: ch_dq :: rest))
    with (mkres (AOk (ch_3 :: st)) [AOk (ch_3 :: st); AOk (ch_3 :: st)] (ch_3 :: st) false).
  simpl. rewrite in_triple by assumption.
  replace (length body + 3) with (S (S (S (length body)))) by lia.
  reflexivity.
Qed.

(* ------------------------------------------------------------------ *)
(* consequences for RemoveComments (text only) *)
Definition vis (k : cfg) (s : str) : option str := visible s (ann k s).

Lemma visible_silent_prefix : forall p s a,
  visible (p ++ s) (repeat ASilent (length p) ++ a) = visible s a.
Proof. induction p as [|c p IH]; intros; simpl; auto. Qed.

Theorem remove_comments_block : forall st body rest,
  code_state st = true -> no_close body = true ->
  vis (Run [] st) (ch_slash :: ch_star :: body ++ ch_star :: ch_slash :: rest) = vis (Run [] st) rest.
Proof.
  intros. unfold vis. rewrite block_comment_transparent by assumption.
  replace (length body + 4) with (length (ch_slash :: ch_star :: body ++ [ch_star; ch_slash])).
  2:{ simpl. rewrite app_length. simpl. lia. }
  replace (ch_slash :: ch_star :: body ++ ch_star :: ch_slash :: rest)
    with ((ch_slash :: ch_star :: body ++ [ch_star; ch_slash]) ++ rest).
  2:{ simpl. rewrite <- app_assoc. reflexivity. }
  apply visible_silent_prefix.
Qed.

Theorem remove_comments_line : forall st body rest,
  code_state st = true -> no_char ch_nl body = true ->
  vis (Run [] st) (ch_hash :: body ++ ch_nl :: rest) = option_map (cons ch_nl) (vis (Run [] st) rest).
Proof.
  intros. unfold vis. rewrite line_comment_transparent by assumption.
  change (ch_hash :: body ++ ch_nl :: rest) with ((ch_hash :: body) ++ ch_nl :: rest).
  change (S (length body)) with (length (ch_hash :: body)).
  rewrite visible_silent_prefix. reflexivity.
Qed.

(* is_whole of a text whose last event is decided by the rest *)
Lemma last_event_silent_prefix : forall n a acc,
  last_event (repeat ASilent n ++ a) acc = last_event a acc.
Proof. induction n; intros; simpl; auto. Qed.

Theorem whole_ignores_block_comment : forall body rest,
  no_close body = true ->
  is_whole (ch_slash :: ch_star :: body ++ ch_star :: ch_slash :: rest) = is_whole rest.
Proof.
  intros. unfold is_whole, traverse, start, whole_of.
  rewrite block_comment_transparent by (auto; reflexivity).
  rewrite last_event_silent_prefix. reflexivity.
Qed.
