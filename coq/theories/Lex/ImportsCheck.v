(* Executable helpers used by the correspondence run of C12 (props/c12.py): a file system given as
   an association list, and a flat serialisation of the model's result so that the harness can
   read `Eval vm_compute` output with coqrun.parse_vm_list. *)
From Coq Require Import List Bool Arith NArith.
Import ListNotations.
From LV Require Import Lex.Imports.

Fixpoint fs_of (l : list (path * file)) (p : path) : option file :=
  match l with
  | [] => None
  | (q, f) :: t => if path_eqb q p then Some f else fs_of t p
  end.

Definition err_code (e : err) : N :=
  (match e with
  | ECycle => 1 | ENotFound => 2 | EUndefined => 3 | EUnused => 4 | EOverride => 5
  | ECollision => 6 | EImportMain => 7 | EImpossible => 8 | EFuel => 9
  end)%N.

Definition ser_rule (r : rule) : list N :=
  [252%N] ++ r_head r ++ [253%N] ++ match r_made r with Some x => x | None => [] end ++ [254%N]
  ++ flat_map (fun n => 255%N :: n) (r_body r).

(* all renaming lists of the run are capture free (hypothesis of C12_flatten_simultaneous) *)
Definition all_nocap (l : list (path * file)) (mainf : file) (st : pstate) : bool :=
  nocap (file_renames st [] true mainf) &&
  forallb (fun e => match snd e, fs_of l (fst e) with
                    | Some pf, Some f => nocap (file_renames st (pf_prefix pf) false f)
                    | _, _ => true
                    end) st.

Definition run (m : mode) (c : list (path * file) * file) : list N :=
  let '(l, mainf) := c in
  let fuel := S (S (length l)) in
  let flag := match parse_main_state m (fs_of l) fuel mainf with
              | Ok (st, _) => if all_nocap l mainf st then 1%N else 0%N
              | Err _ => 2%N
              end in
  match parse_main m (fs_of l) fuel mainf with
  | Err e => [250%N; err_code e; flag]
  | Ok rs => [251%N; flag] ++ flat_map ser_rule rs
  end.

(* prefixes assigned, in state order: 249-separated *)
Definition run_prefixes (m : mode) (c : list (path * file) * file) : list N :=
  let '(l, mainf) := c in
  match parse_main_state m (fs_of l) (S (S (length l))) mainf with
  | Ok (st, _) => flat_map (fun q => 249%N :: q) (prefixes st)
  | Err e => [250%N; err_code e]
  end.
