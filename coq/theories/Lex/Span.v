(* Model of parser_py/parse.py: HeritageAwareString (a text together with the string it was cut
   from and the offsets), __getitem__ with a slice, GetSlice.  No proofs here (SpanProofs.v). *)
From Coq Require Import List Bool Arith NArith ZArith Lia.
Import ListNotations.
From LV Require Import Lex.Traverse Lex.Split.
Local Open Scope Z_scope.

Record hstr := mkh { h_text : str; h_her : str; h_start : Z; h_stop : Z }.

Definition zlen (s : str) : Z := Z.of_nat (length s).
Definition fresh (s : str) : hstr := mkh s s 0 (zlen s).

(* Python s[a:b] on a str, for arbitrary ints *)
Definition norm_idx (n i : Z) : Z := if i <? 0 then Z.max 0 (n + i) else Z.min i n.
Definition py_slice (s : str) (a b : Z) : str :=
  let n := zlen s in sub s (Z.to_nat (norm_idx n a)) (Z.to_nat (norm_idx n b)).

Definition norm_stop (n b : Z) : Z :=
  let b1 := if b >? n then n else b in if b1 <? 0 then n + b1 else b1.

Definition get_slice (h : hstr) (a b : Z) : hstr :=
  let n := zlen (h_text h) in
  mkh (py_slice (h_text h) a b) (h_her h) (h_start h + a) (h_start h + norm_stop n b).

(* h[a:b] where either bound may be omitted (`slice.start or 0`, `stop if not None else len`) *)
Definition getitem (h : hstr) (a b : option Z) : hstr :=
  get_slice h (match a with Some x => x | None => 0 end)
              (match b with Some y => y | None => zlen (h_text h) end).

(* the span is literally the text at that position of the heritage *)
Definition wf (h : hstr) : Prop :=
  0 <= h_start h /\ h_start h <= h_stop h /\ h_stop h <= zlen (h_her h) /\
  h_text h = sub (h_her h) (Z.to_nat (h_start h)) (Z.to_nat (h_stop h)).

(* the slice of h that a part (offsets relative to h's text) denotes *)
Definition part_slice (h : hstr) (p : part) : hstr :=
  let '(a, b, _) := p in get_slice h (Z.of_nat a) (Z.of_nat b).
