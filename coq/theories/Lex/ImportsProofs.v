(* C12 — proofs about Lex/Imports.v, part 1: equality tests, the lexical facts about prefixes
   (the prefix loop, injectivity of prefixing) and sequential vs. simultaneous renaming. *)
From Coq Require Import List Bool Arith NArith Lia Permutation.
Import ListNotations.
From LV Require Import Lex.Imports.

(* ---------- equality tests ---------- *)
Lemma name_eqb_eq : forall a b, name_eqb a b = true <-> a = b.
Proof.
  induction a as [|x a IH]; destruct b as [|y b]; simpl; split; intro H; try discriminate; auto.
  - apply andb_true_iff in H. destruct H as [H1 H2]. apply N.eqb_eq in H1. apply IH in H2. congruence.
  - inversion H; subst. apply andb_true_iff. split. apply N.eqb_refl. apply IH. reflexivity.
Qed.

Lemma name_eqb_refl : forall a, name_eqb a a = true.
Proof. intro a. apply name_eqb_eq. reflexivity. Qed.

Lemma name_eqb_neq : forall a b, name_eqb a b = false <-> a <> b.
Proof.
  intros a b. split; intro H.
  - intro E. apply name_eqb_eq in E. congruence.
  - destruct (name_eqb a b) eqn:E; auto. apply name_eqb_eq in E. contradiction.
Qed.

Lemma path_eqb_eq : forall a b, path_eqb a b = true <-> a = b.
Proof.
  induction a as [|x a IH]; destruct b as [|y b]; simpl; split; intro H; try discriminate; auto.
  - apply andb_true_iff in H. destruct H as [H1 H2]. apply name_eqb_eq in H1. apply IH in H2. congruence.
  - inversion H; subst. apply andb_true_iff. split. apply name_eqb_refl. apply IH. reflexivity.
Qed.

Lemma path_eqb_refl : forall a, path_eqb a a = true.
Proof. intro a. apply path_eqb_eq. reflexivity. Qed.

Lemma path_eqb_neq : forall a b, path_eqb a b = false <-> a <> b.
Proof.
  intros a b. split; intro H.
  - intro E. apply path_eqb_eq in E. congruence.
  - destruct (path_eqb a b) eqn:E; auto. apply path_eqb_eq in E. contradiction.
Qed.

Lemma mem_In : forall x l, mem x l = true <-> In x l.
Proof.
  intros x l. unfold mem. rewrite existsb_exists. split.
  - intros [y [Hy E]]. apply name_eqb_eq in E. subst. assumption.
  - intro H. exists x. split. assumption. apply name_eqb_refl.
Qed.

Lemma mem_false : forall x l, mem x l = false <-> ~ In x l.
Proof.
  intros x l. split; intro H.
  - intro Hin. apply mem_In in Hin. congruence.
  - destruct (mem x l) eqn:E; auto. apply mem_In in E. contradiction.
Qed.

(* ---------- the prefix loop ---------- *)
Lemma extend_fresh : forall existing exts pre q,
  extend existing exts pre = Some q -> ~ In q existing.
Proof.
  intros existing exts. induction exts as [|e exts IH]; intros pre q H; simpl in H.
  - destruct (mem pre existing) eqn:E; try discriminate. inversion H; subst. apply mem_false. assumption.
  - destruct (mem pre existing) eqn:E.
    + eapply IH. eassumption.
    + inversion H; subst. apply mem_false. assumption.
Qed.

(* the loop only ever returns a prefix that no already parsed file has: all modes *)
Lemma file_prefix_fresh : forall m existing p q,
  file_prefix m existing p = Some q -> ~ In q existing.
Proof. intros m existing p q H. unfold file_prefix in H. eapply extend_fresh. eassumption. Qed.

(* parse.py as it is: on a collision of capitalised base names the loop cannot succeed *)
Lemma py_loop_no_extension : forall existing p,
  file_prefix Py existing p =
  if mem (capitalize (last p []) ++ [underscore]) existing then None
  else Some (capitalize (last p []) ++ [underscore]).
Proof. intros. unfold file_prefix. simpl. reflexivity. Qed.

Lemma count_upper_app : forall a b, count_upper (a ++ b) = count_upper a + count_upper b.
Proof. intros. unfold count_upper. rewrite filter_app, app_length. reflexivity. Qed.

Lemma no_upper_count : forall s, no_upper s = true -> count_upper s = 0.
Proof.
  induction s as [|c s IH]; simpl; intro H; auto.
  apply andb_true_iff in H. destruct H as [H1 H2]. unfold count_upper in *. simpl.
  destruct (is_upper c); simpl in *; try discriminate. auto.
Qed.

Lemma low_not_upper : forall c, is_upper (low c) = false.
Proof.
  intro c. unfold low. destruct (is_upper c) eqn:E; auto.
  unfold is_upper in *. apply andb_true_iff in E. destruct E as [E1 E2].
  apply N.leb_le in E1. apply N.leb_le in E2.
  apply andb_false_iff. right. apply N.leb_gt. lia.
Qed.

Lemma up_lower_is_upper : forall c, is_lower c = true -> is_upper (up c) = true.
Proof.
  intros c H. unfold up. rewrite H. unfold is_lower, is_upper in *.
  apply andb_true_iff in H. destruct H as [H1 H2]. apply N.leb_le in H1. apply N.leb_le in H2.
  apply andb_true_iff. split; apply N.leb_le; lia.
Qed.

Lemma count_upper_map_low : forall s, count_upper (map low s) = 0.
Proof.
  induction s as [|c s IH]; auto. unfold count_upper in *. simpl. rewrite low_not_upper. assumption.
Qed.

Lemma capitalize_count : forall s c t, s = c :: t -> is_lower c = true -> count_upper (capitalize s) = 1.
Proof.
  intros s c t E H. subst. unfold capitalize.
  change (up c :: map low t) with ([up c] ++ map low t). rewrite count_upper_app, count_upper_map_low.
  unfold count_upper. simpl. rewrite up_lower_is_upper by assumption. reflexivity.
Qed.

Lemma extend_count : forall existing exts pre q,
  extend existing exts pre = Some q -> (forall e, In e exts -> count_upper e = 0) ->
  count_upper q = count_upper pre.
Proof.
  intros existing exts. induction exts as [|e exts IH]; intros pre q H Hz; simpl in H.
  - destruct (mem pre existing); try discriminate. inversion H; subst. reflexivity.
  - destruct (mem pre existing).
    + apply IH in H. rewrite H, count_upper_app. rewrite (Hz e) by (left; reflexivity). reflexivity.
      intros e' He'. apply Hz. right. assumption.
    + inversion H; subst. reflexivity.
Qed.

Lemma In_removelast : forall (A : Type) (l : list A) x, In x (removelast l) -> In x l.
Proof.
  induction l as [|a l IH]; simpl; intros x H; auto.
  destruct l as [|b l]; simpl in *; auto. destruct H as [H|H]; auto.
Qed.

Lemma In_tl : forall (A : Type) (l : list A) x, In x (tl l) -> In x l.
Proof. intros A l x H. destruct l; simpl in *; auto. Qed.

Lemma In_ext_parts : forall m p e, In e (ext_parts m p) -> In e p.
Proof.
  intros m p e H. destruct m; simpl in H.
  - contradiction.
  - apply in_rev in H. apply In_tl in H. apply In_removelast in H. assumption.
  - apply in_rev in H. apply In_removelast in H. assumption.
Qed.

(* under the lexical side condition every prefix the loop returns has exactly one capital letter *)
Lemma file_prefix_one_upper : forall m existing p q,
  lexical_ok p = true -> file_prefix m existing p = Some q -> count_upper q = 1.
Proof.
  intros m existing p q Hl H. unfold lexical_ok in Hl. apply andb_true_iff in Hl. destruct Hl as [Hc Hb].
  unfold file_prefix in H. apply extend_count in H.
  - rewrite H, count_upper_app. destruct (last p []) as [|c t] eqn:El; try discriminate.
    rewrite (capitalize_count (c :: t) c t) by auto. reflexivity.
  - intros e He. apply In_ext_parts in He. apply no_upper_count.
    rewrite forallb_forall in Hc. apply Hc. assumption.
Qed.

(* prefixing is injective on (prefix, name) pairs: names start with a capital letter, the two
   prefixes have the same number of capital letters *)
Lemma prefix_injective : forall p1 p2 n1 n2,
  count_upper p1 = count_upper p2 -> starts_upper n1 = true -> starts_upper n2 = true ->
  p1 ++ n1 = p2 ++ n2 -> p1 = p2 /\ n1 = n2.
Proof.
  induction p1 as [|c p1 IH]; intros p2 n1 n2 Hc H1 H2 E.
  - destruct p2 as [|d p2]; simpl in *; auto.
    exfalso. subst n1. simpl in H1. unfold count_upper in Hc. simpl in Hc. rewrite H1 in Hc. discriminate.
  - destruct p2 as [|d p2]; simpl in *.
    + exfalso. subst n2. simpl in H2. unfold count_upper in Hc. simpl in Hc. rewrite H2 in Hc. discriminate.
    + inversion E; subst. destruct (IH p2 n1 n2) as [Ea Eb]; auto.
      * unfold count_upper in *. simpl in Hc. destruct (is_upper d); simpl in Hc; lia.
      * subst. auto.
Qed.

(* ---------- sequential renaming = simultaneous substitution ---------- *)
Fixpoint seq_name (L : list (name * name)) (x : name) : name :=
  match L with
  | [] => x
  | (o, n) :: t => seq_name t (rn o n x)
  end.

Lemma subst_rule_ext : forall f g r, (forall x, f x = g x) -> subst_rule f r = subst_rule g r.
Proof.
  intros f g r H. unfold subst_rule. f_equal; auto.
  - destruct (r_made r); simpl; f_equal; auto.
  - apply map_ext. assumption.
Qed.

Lemma rn_rule_subst : forall o n r, rn_rule o n r = subst_rule (rn o n) r.
Proof. reflexivity. Qed.

Lemma subst_rule_comp : forall f g r, subst_rule f (subst_rule g r) = subst_rule (fun x => f (g x)) r.
Proof.
  intros f g r. unfold subst_rule. simpl. f_equal.
  - destruct (r_made r); reflexivity.
  - apply map_map.
Qed.

Lemma apply_renames_subst : forall L rs, apply_renames L rs = map (subst_rule (seq_name L)) rs.
Proof.
  induction L as [|[o n] L IH]; intro rs; simpl.
  - rewrite <- (map_id rs) at 1. apply map_ext. intro r. destruct r as [h md b]. unfold subst_rule. simpl.
    f_equal. destruct md; reflexivity. symmetry. apply map_id.
  - rewrite IH. unfold rename_all. rewrite map_map. apply map_ext. intro r.
    rewrite rn_rule_subst, subst_rule_comp. reflexivity.
Qed.

Lemma apply_renames_app : forall L1 L2 rs,
  apply_renames (L1 ++ L2) rs = apply_renames L2 (apply_renames L1 rs).
Proof. induction L1 as [|[o n] L1 IH]; intros; simpl; auto. Qed.

Lemma seq_name_untouched : forall L x, ~ In x (map fst L) -> seq_name L x = x.
Proof.
  induction L as [|[o n] L IH]; intros x H; simpl; auto.
  unfold rn. destruct (name_eqb x o) eqn:E.
  - apply name_eqb_eq in E. subst. exfalso. apply H. left. reflexivity.
  - apply IH. intro Hin. apply H. right. assumption.
Qed.

Lemma seq_first_match : forall L, nocap L = true -> forall x, seq_name L x = first_match L x.
Proof.
  induction L as [|[o n] L IH]; intros H x; simpl; auto.
  simpl in H. apply andb_true_iff in H. destruct H as [H1 H2].
  unfold rn. destruct (name_eqb x o) eqn:E.
  - apply seq_name_untouched. apply mem_false. apply negb_true_iff in H1. assumption.
  - apply IH. assumption.
Qed.

(* the renaming steps of the code amount to one simultaneous substitution when nothing is captured *)
Lemma apply_renames_simultaneous : forall L rs,
  nocap L = true -> apply_renames L rs = map (subst_rule (first_match L)) rs.
Proof.
  intros L rs H. rewrite apply_renames_subst. apply map_ext. intro r. apply subst_rule_ext.
  apply seq_first_match. assumption.
Qed.

(* the file's own predicates: the substitution does not depend on the iteration order of the set *)
Lemma first_match_own : forall pre os x,
  first_match (map (fun o => (o, pre ++ o)) os) x = if mem x os then pre ++ x else x.
Proof.
  induction os as [|o os IH]; intro x; simpl; auto.
  destruct (name_eqb x o) eqn:E; simpl.
  - apply name_eqb_eq in E. subst. reflexivity.
  - apply IH.
Qed.

Lemma nocap_own : forall pre os,
  (forall o o', In o os -> In o' os -> pre ++ o <> o') -> nocap (map (fun o => (o, pre ++ o)) os) = true.
Proof.
  induction os as [|o os IH]; intro H; simpl; auto.
  apply andb_true_iff. split.
  - apply negb_true_iff. apply mem_false. rewrite map_map. simpl. rewrite map_id.
    intro Hin. apply (H o (pre ++ o)); auto. left. reflexivity. right. assumption.
  - apply IH. intros a b Ha Hb. apply H; right; assumption.
Qed.

Lemma own_order_irrelevant : forall pre os os' rs,
  (forall x, In x os <-> In x os') ->
  (forall o o', In o os -> In o' os -> pre ++ o <> o') ->
  apply_renames (map (fun o => (o, pre ++ o)) os) rs = apply_renames (map (fun o => (o, pre ++ o)) os') rs.
Proof.
  intros pre os os' rs Hs Hn.
  rewrite !apply_renames_simultaneous.
  - apply map_ext. intro r. apply subst_rule_ext. intro x. rewrite !first_match_own.
    destruct (mem x os) eqn:E1; destruct (mem x os') eqn:E2; auto.
    + apply mem_In in E1. apply Hs in E1. apply mem_In in E1. congruence.
    + apply mem_In in E2. apply Hs in E2. apply mem_In in E2. congruence.
  - apply nocap_own. intros o o' Ho Ho'. apply Hn; apply Hs; assumption.
  - apply nocap_own. assumption.
Qed.
