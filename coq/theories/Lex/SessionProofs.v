(* C13 — proofs about Lex/Session.v. *)
From Coq Require Import List Bool NArith.
Import ListNotations.
From LV Require Import Lex.Session.
Open Scope N_scope.

(* with the repair, the tree of a main file is a function of its text: no history, no initial state *)
Theorem history_free_if_reset : forall history st t,
  run parse_step_reset st history t = read (has_incantation t) t.
Proof.
  induction history as [|h hs IH]; intros st t; simpl.
  - reflexivity.
  - apply IH.
Qed.

(* parse.py as it is: the tree depends on the history exactly through "some earlier main file (or
   the state before) had the switch on" *)
Theorem sticky_characterised : forall history st t,
  run parse_step_sticky st history t =
  read (too_much st || existsb has_incantation history || has_incantation t) t.
Proof.
  induction history as [|h hs IH]; intros st t; simpl.
  - rewrite orb_false_r. reflexivity.
  - rewrite IH. simpl. rewrite <- !orb_assoc. reflexivity.
Qed.

Corollary sticky_history_free_without_incantation : forall history t,
  existsb has_incantation history = false ->
  run parse_step_sticky fresh history t = run parse_step_sticky fresh [] t.
Proof.
  intros history t H. rewrite !sticky_characterised. rewrite H. reflexivity.
Qed.

(* the witness: "# <incantation>" first, then the plain text 2*F(3) *)
Definition w_first : text := [35; 32] ++ incantation.
Definition w_plain : text := [50; 42; 70; 40; 51; 41].       (* 2*F(3) *)

Example w_plain_has_no_incantation : has_incantation w_plain = false.
Proof. vm_compute. reflexivity. Qed.
Example w_fresh : run parse_step_sticky fresh [] w_plain = Times [50] (Call [70] [51]).
Proof. vm_compute. reflexivity. Qed.
Example w_after : run parse_step_sticky fresh [w_first] w_plain = Call [50; 42; 70] [51].
Proof. vm_compute. reflexivity. Qed.

Theorem history_dependent_refuted :
  exists history t, has_incantation t = false /\
    run parse_step_sticky fresh history t <> run parse_step_sticky fresh [] t.
Proof.
  exists [w_first], w_plain. split.
  - exact w_plain_has_no_incantation.
  - rewrite w_fresh, w_after. discriminate.
Qed.
