(* C10 — the emitters of the CURRENT source (coq/gen/StrLitGen.v, regenerated from QL.StrLiteral
   on every run) paired with the Spec lexer of the engine that reads them.  No proofs here. *)
From Coq Require Import List NArith Bool.
Import ListNotations.
From LV Require Import Lex.StrLit.
From LVGen Require Import StrLitGen.
Open Scope N_scope.

Fixpoint kind_of (name : str) (tbl : list (str * emit_kind)) : option emit_kind :=
  match tbl with
  | [] => None
  | (n, k) :: tbl' => if str_eqb name n then Some k else kind_of name tbl'
  end.

(* QL(dialect).StrLiteral({'the_string': s}) *)
Definition emit (name : str) (s : str) : option str :=
  match kind_of name dialect_kinds with Some k => Some (emit_of k s) | None => None end.

(* Characters for which the current emitter is known NOT to round trip (see the _refuted
   theorems): the statement of the general theorem excludes exactly these. *)
Definition safe_for (name : str) (s : str) : Prop :=
  (name = n_ClickHouse -> ~ In 92 s) /\ (name = n_Databricks -> ~ In 12 s).

(* executable judgement used by the harness (props/c10.py):
   bit 0 (1): the implementation's output differs from the model emitter  (tie broken)
   bit 1 (2): the Spec lexer does not read the implementation's output ++ rest back as (s, rest) *)
Definition judge (name s out rest : str) : N :=
  (match emit name s with Some m => if str_eqb m out then 0 else 1 | None => 1 end) +
  (match lexer_for name with Some lx => judge_lex lx s out rest | None => 2 end).
