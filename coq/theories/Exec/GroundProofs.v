(* Proofs for the @Ground model (Exec/Ground.v). *)
From Coq Require Import List Bool Arith Lia.
Import ListNotations.
From LV Require Import Exec.Ground.

Section ProgramProofs.
  Variable grounded : pred -> bool.
  Variable deps : pred -> list pred.
  (* reads p: the grounded tables the query compiled for p mentions *)
  Variable reads : pred -> list pred.

  (* acyclic program, predicates numbered in dependency order *)
  Hypothesis deps_lt : forall p d, In d (deps p) -> d < p.
  (* the query of p only mentions tables of the grounded frontier of p *)
  Hypothesis reads_sound : forall p t, In t (reads p) ->
    exists d, In d (deps p) /\
      ((grounded d = true /\ t = d) \/ (grounded d = false /\ In t (reads d))).

  (* a well-formed export order: no table twice, every table after the tables its query reads *)
  Inductive WF : list pred -> Prop :=
  | WF_nil : WF []
  | WF_snoc : forall l d, WF l -> ~ In d l -> incl (reads d) l -> WF (l ++ [d]).

  Notation visit := (visit grounded deps).
  Notation vlist f := (fold_left (fun s x => visit f x s)).

  Definition Inv (st : state) : Prop := WF (out st) /\ incl (out st) (memo st).
  Definition Pend (b : nat) (st : state) : Prop :=
    forall x, In x (memo st) -> In x (out st) \/ b <= x.
  Definition covered (d : pred) (st : state) : Prop :=
    (grounded d = true -> In d (out st)) /\ (grounded d = false -> incl (reads d) (out st)).
  Definition R (b : nat) (st st' : state) : Prop :=
    Inv st' /\ ok st' = ok st /\
    exists new, out st' = out st ++ new /\ (forall x, In x new -> x < b) /\
                (forall x, In x (memo st') <-> In x (memo st) \/ In x new).

  Lemma R_refl : forall b st, Inv st -> R b st st.
  Proof.
    intros b st H. split; auto. split; auto. exists []. rewrite app_nil_r.
    split; auto. split. intros x []. intros x; simpl; tauto.
  Qed.

  Lemma R_trans : forall b s1 s2 s3, R b s1 s2 -> R b s2 s3 -> R b s1 s3.
  Proof.
    intros b s1 s2 s3 (I2 & O2 & n2 & E2 & L2 & M2) (I3 & O3 & n3 & E3 & L3 & M3).
    split; auto. split. congruence. exists (n2 ++ n3). split. rewrite E3, E2, app_assoc; auto.
    split. intros x Hx. apply in_app_or in Hx. destruct Hx; auto.
    intros x. rewrite M3, M2, in_app_iff. tauto.
  Qed.

  Lemma R_weaken : forall b b' s s', b <= b' -> R b s s' -> R b' s s'.
  Proof.
    intros b b' s s' Hb (I & O & n & E & L & M). split; auto. split; auto.
    exists n. split; auto. split; auto. intros x Hx. specialize (L x Hx). lia.
  Qed.

  Lemma R_out_incl : forall b s s', R b s s' -> incl (out s) (out s').
  Proof. intros b s s' (_ & _ & n & E & _). rewrite E. apply incl_appl, incl_refl. Qed.

  Lemma pend_preserved : forall b c s s', Pend b s -> R c s s' -> Pend b s'.
  Proof.
    intros b c s s' P (I & O & n & E & L & M) x Hx. apply M in Hx. destruct Hx as [Hx|Hx].
    - destruct (P x Hx); auto. left. rewrite E. apply in_or_app; auto.
    - left. rewrite E. apply in_or_app; auto.
  Qed.

  Lemma covered_mono : forall d s s', covered d s -> incl (out s) (out s') -> covered d s'.
  Proof.
    intros d s s' [C1 C2] Hi. split; intros G. apply Hi; auto.
    intros t Ht. apply Hi. apply C2; auto.
  Qed.

  Lemma reads_covered : forall p st, (forall d, In d (deps p) -> covered d st) -> incl (reads p) (out st).
  Proof.
    intros p st H t Ht. destruct (reads_sound p t Ht) as (d & Hd & [[G ->]|[G Hr]]).
    - destruct (H d Hd) as [C1 _]. auto.
    - destruct (H d Hd) as [_ C2]. apply C2; auto.
  Qed.

  Lemma mem_in : forall d l, mem d l = true <-> In d l.
  Proof.
    intros d l. unfold mem. rewrite existsb_exists. split.
    - intros (x & Hx & E). apply Nat.eqb_eq in E. subst; auto.
    - intros H. exists d. split; auto. apply Nat.eqb_refl.
  Qed.

  Section ListLemma.
    Variable f : nat.
    Hypothesis IHv : forall d st, d < f -> Inv st -> Pend (S d) st ->
      R (S d) st (visit f d st) /\ covered d (visit f d st).

    Lemma vlist_spec : forall ds b st, (forall x, In x ds -> x < b) -> b <= f -> Inv st -> Pend b st ->
      R b st (vlist f ds st) /\ forall d, In d ds -> covered d (vlist f ds st).
    Proof.
      induction ds as [|x tl IH]; intros b st Hlt Hb HI HP; simpl.
      - split. apply R_refl; auto. intros d [].
      - assert (Hx : x < b) by (apply Hlt; left; auto).
        assert (HP1 : Pend (S x) st) by (intros y Hy; destruct (HP y Hy); [auto|right; lia]).
        destruct (IHv x st ltac:(lia) HI HP1) as [R1 C1].
        assert (R1b : R b st (visit f x st)) by (eapply R_weaken; [|eauto]; lia).
        assert (I1 : Inv (visit f x st)) by (destruct R1; auto).
        assert (P1 : Pend b (visit f x st)) by (eapply pend_preserved; eauto).
        destruct (IH b (visit f x st) ltac:(intros; apply Hlt; right; auto) Hb I1 P1) as [R2 C2].
        split. eapply R_trans; eauto.
        intros d [<-|Hd]; auto. eapply covered_mono; eauto. eapply R_out_incl; eauto.
    Qed.
  End ListLemma.

  Lemma visit_spec : forall f d st, d < f -> Inv st -> Pend (S d) st ->
    R (S d) st (visit f d st) /\ covered d (visit f d st).
  Proof.
    induction f as [|f IHf]; intros d st Hd HI HP. lia.
    simpl. destruct (grounded d) eqn:G.
    - destruct (mem d (memo st)) eqn:M.
      + split. apply R_refl; auto. split; [|congruence]. intros _.
        apply mem_in in M. destruct (HP d M); auto. lia.
      + match goal with |- context [fold_left _ (deps d) ?s] => remember s as st1 eqn:E1 end.
        assert (Mn : ~ In d (memo st)) by (rewrite <- mem_in; congruence).
        assert (I1 : Inv st1) by (subst st1; destruct HI; split; cbn [memo out]; auto; apply incl_tl; auto).
        assert (P1 : Pend d st1).
        { subst st1. intros x [<-|Hx]; cbn [memo out]; auto. destruct (HP x Hx); auto. right; lia. }
        destruct (vlist_spec f IHf (deps d) d st1 (deps_lt d) ltac:(lia) I1 P1) as [R2 C2].
        match goal with |- context [fold_left ?g (deps d) st1] => remember (fold_left g (deps d) st1) as st2 eqn:E2s end.
        destruct R2 as ((W2 & Inc2) & O2 & new & E2 & L2 & M2).
        assert (Eo1 : out st1 = out st) by (subst st1; reflexivity).
        assert (Ek1 : ok st1 = ok st) by (subst st1; reflexivity).
        assert (Em1 : forall x, In x (memo st1) <-> x = d \/ In x (memo st)).
        { subst st1. cbn [memo]. intros x. simpl. intuition. }
        rewrite Eo1 in E2. rewrite Ek1 in O2. clear E1 E2s.
        assert (Nd : ~ In d (out st2)).
        { rewrite E2. intros H. apply in_app_or in H. destruct H as [H|H].
          apply Mn. destruct HI as [_ Hi]. apply Hi; auto. specialize (L2 d H). lia. }
        split.
        * split; [split|split]; cbn [memo out ok].
          -- apply WF_snoc; auto. apply reads_covered. auto.
          -- apply incl_app; auto. intros x [<-|[]]. apply M2. left. apply Em1. auto.
          -- auto.
          -- exists (new ++ [d]). split. rewrite E2, app_assoc; auto.
             split. intros x Hx. apply in_app_or in Hx. destruct Hx as [Hx|[<-|[]]]; auto.
             specialize (L2 x Hx). lia.
             intros x. rewrite M2, Em1, in_app_iff. simpl. intuition.
        * split; [|congruence]. intros _. cbn [out]. apply in_or_app. right; left; auto.
    - assert (P1 : Pend d st) by (intros x Hx; destruct (HP x Hx); [auto|right; lia]).
      destruct (vlist_spec f IHf (deps d) d st (deps_lt d) ltac:(lia) HI P1) as [R2 C2].
      split. eapply R_weaken; [|eauto]; lia.
      split; [congruence|]. intros _. apply reads_covered. auto.
  Qed.

  Lemma inv_init : Inv (init) /\ forall b, Pend b init.
  Proof. split. split; simpl. constructor. apply incl_refl. intros b x []. Qed.

  (* ---- the export order produced by the compiler's traversal ---- *)
  Theorem compile_spec : forall fuel main, main <= fuel ->
    let st := compile grounded deps fuel main in
    WF (out st) /\ ok st = true /\ (forall x, In x (out st) -> x < main) /\ incl (reads main) (out st).
  Proof.
    intros fuel main Hf. destruct inv_init as [I0 P0].
    destruct (vlist_spec fuel (fun d st H => visit_spec fuel d st H) (deps main) main init
                (deps_lt main) Hf I0 (P0 main)) as [(I & O & new & E & L & M) C].
    unfold compile. simpl. split. destruct I; auto. split. auto.
    split. rewrite E. simpl. auto. apply reads_covered. auto.
  Qed.

  (* every CREATE comes after the CREATEs of the tables its query reads; no table is written twice *)
  Theorem exports_postorder : forall fuel main, main <= fuel -> WF (script grounded deps fuel main).
  Proof. intros. apply compile_spec; auto. Qed.

  Theorem script_not_out_of_fuel : forall fuel main, main <= fuel -> ok (compile grounded deps fuel main) = true.
  Proof. intros. apply compile_spec; auto. Qed.

  (* asking for P itself emits no statement for P *)
  Theorem self_request_writes_nothing : forall fuel main, main <= fuel ->
    ~ In main (script grounded deps fuel main).
  Proof.
    intros fuel main Hf H. apply (compile_spec fuel main Hf) in H. lia.
  Qed.

  (* every table the requested predicate's own query reads has been written by the script *)
  Theorem main_reads_written : forall fuel main, main <= fuel ->
    incl (reads main) (script grounded deps fuel main).
  Proof. intros. apply compile_spec; auto. Qed.

  Lemma WF_nodup : forall l, WF l -> NoDup l.
  Proof.
    induction 1. constructor. apply NoDup_rev in IHWF.
    rewrite <- (rev_involutive (l ++ [d])). apply NoDup_rev. rewrite rev_app_distr. simpl.
    constructor; auto. rewrite <- in_rev. auto.
  Qed.

  Lemma WF_before : forall l, WF l -> forall l1 d l2, l = l1 ++ d :: l2 -> incl (reads d) l1.
  Proof.
    induction 1 as [|l d' W IH Hn Hr]; intros l1 d l2 E.
    - destruct l1; discriminate.
    - destruct l2 as [|y l2] using rev_ind.
      + apply app_inj_tail in E. destruct E as [-> ->]. auto.
      + clear IHl2. rewrite app_comm_cons, app_assoc in E. apply app_inj_tail in E.
        destruct E as [E _]. eapply IH; eauto.
  Qed.

  (* ---- execution ---- *)
  Variable B : Type.
  Variable eval_q : pred -> store B -> B.
  (* a query is a deterministic function of the tables it reads *)
  Hypothesis eval_det : forall d s s', (forall t, In t (reads d) -> s t = s' t) -> eval_q d s = eval_q d s'.

  Notation run l s := (run_script B eval_q l s).

  Lemma exec_app : forall c1 c2 s, exec B eval_q (c1 ++ c2) s =
    match exec B eval_q c1 s with Some s' => exec B eval_q c2 s' | None => None end.
  Proof.
    induction c1 as [|c tl IH]; intros; simpl; auto. destruct (exec1 B eval_q s c); auto.
  Qed.

  Lemma run_snoc : forall l d s, run (l ++ [d]) s =
    match run l s with
    | Some s' => Some (upd B (upd B s' d None) d (Some (eval_q d (upd B s' d None))))
    | None => None
    end.
  Proof.
    intros. unfold run_script, stmts_of. rewrite flat_map_app, exec_app. simpl.
    destruct (exec B eval_q (flat_map (fun d0 => [Drop d0; CreateAs d0]) l) s); auto.
    replace (upd B s0 d None d) with (@None B) by (unfold upd; rewrite Nat.eqb_refl; reflexivity).
    reflexivity.
  Qed.

  Lemma upd_same : forall (s : store B) t v, upd B s t v t = v.
  Proof. intros. unfold upd. rewrite Nat.eqb_refl. auto. Qed.
  Lemma upd_other : forall (s : store B) t v x, x <> t -> upd B s t v x = s x.
  Proof. intros. unfold upd. apply Nat.eqb_neq in H. rewrite H. auto. Qed.

  (* the script never fails (DROP precedes CREATE), touches exactly its own tables, and what it
     writes does not depend on what the file held before *)
  Theorem run_total_and_canonical : forall l, WF l ->
    forall s0, exists s, run l s0 = Some s /\
      (forall t, ~ In t l -> s t = s0 t) /\
      (forall t, In t l -> s t = Some (eval_q t s)) /\
      (forall s0' s', run l s0' = Some s' -> forall t, In t l -> s t = s' t).
  Proof.
    induction 1 as [|l d W IH Hn Hr]; intros s0.
    - exists s0. split. reflexivity. split; auto. split. intros t []. intros s0' s' _ t [].
    - destruct (IH s0) as (s1 & E1 & U1 & V1 & C1). rewrite run_snoc, E1.
      eexists. split. reflexivity.
      set (s1d := upd B s1 d None).
      assert (Agree : forall t, t <> d -> s1d t = s1 t) by (intros; apply upd_other; auto).
      assert (Ev : forall x, In x l -> eval_q x (upd B s1d d (Some (eval_q d s1d))) = eval_q x s1).
      { intros x Hx. apply eval_det. intros t Ht.
        assert (In t l).
        { apply in_split in Hx. destruct Hx as (l1 & l2 & ->).
          eapply incl_appl; [apply incl_refl|]. eapply (WF_before _ W); eauto. }
        assert (t <> d) by (intros ->; auto).
        rewrite upd_other, Agree; auto. }
      split; [|split].
      + intros t Ht. assert (t <> d) by (intros ->; apply Ht, in_or_app; right; left; auto).
        rewrite upd_other, Agree; auto. apply U1. intros H1. apply Ht, in_or_app; auto.
      + intros t Ht. apply in_app_or in Ht. destruct Ht as [Ht|[<-|[]]].
        * assert (t <> d) by (intros ->; auto). rewrite upd_other, Agree, Ev; auto.
        * rewrite upd_same. f_equal. apply eval_det. intros t Ht.
          assert (t <> d) by (intros ->; auto). rewrite upd_other; auto.
      + intros s0' s' E' t Ht. rewrite run_snoc in E'.
        destruct (run l s0') as [s1'|] eqn:E1'; [|discriminate]. inversion E'; subst s'. clear E'.
        apply in_app_or in Ht. destruct Ht as [Ht|[<-|[]]].
        * assert (t <> d) by (intros ->; auto). rewrite !upd_other; auto. rewrite Agree; auto.
          eapply C1; eauto.
        * rewrite !upd_same. f_equal. apply eval_det. intros t Ht.
          assert (t <> d) by (intros ->; auto). rewrite !upd_other; auto. rewrite Agree; auto.
          eapply C1; eauto.
  Qed.

  (* after the script every written table holds its query's value on the final store *)
  Theorem script_materialises : forall l, WF l -> forall s0 s, run l s0 = Some s ->
    forall t, In t l -> s t = Some (eval_q t s).
  Proof.
    intros l W s0 s E. destruct (run_total_and_canonical l W s0) as (s1 & E1 & _ & V & _).
    rewrite E in E1. inversion E1; subst. auto.
  Qed.

  (* re-running the script is idempotent on the tables ... *)
  Theorem rerun_idempotent : forall l, WF l -> forall s0 s, run l s0 = Some s ->
    exists s', run l s = Some s' /\ forall t, s' t = s t.
  Proof.
    intros l W s0 s E. destruct (run_total_and_canonical l W s) as (s' & E' & U & _ & C).
    exists s'. split; auto. intros t. destruct (in_dec Nat.eq_dec t l) as [Hi|Hn].
    - eapply C; eauto.
    - apply U; auto.
  Qed.

  (* ... and on the result of any predicate whose query reads written tables only *)
  Theorem rerun_same_result : forall l main, WF l -> incl (reads main) l ->
    forall s0 s, run l s0 = Some s -> forall s', run l s = Some s' ->
    result B eval_q main s' = result B eval_q main s.
  Proof.
    intros l main W Hr s0 s E s' E'. unfold result. apply eval_det. intros t Ht.
    destruct (run_total_and_canonical l W s) as (s'' & E'' & _ & _ & C).
    rewrite E' in E''. inversion E''; subst s''. eapply C; eauto.
  Qed.

  (* ---- faithfulness w.r.t. a specification of the predicates ---- *)
  Variable spec : pred -> B.   (* the bag p denotes (evaluation without @Ground) *)
  (* each single query is compiled correctly: on a store whose read tables hold the specified bags
     it returns the specified bag (this is the subject of C01; validated per instance by the tie) *)
  Hypothesis query_correct : forall d s, (forall t, In t (reads d) -> s t = Some (spec t)) -> eval_q d s = spec d.

  Theorem tables_hold_spec : forall l, WF l -> forall s0 s, run l s0 = Some s ->
    forall t, In t l -> s t = Some (spec t).
  Proof.
    induction 1 as [|l d W IH Hn Hr]; intros s0 s E t Ht. destruct Ht.
    rewrite run_snoc in E. destruct (run l s0) as [s1|] eqn:E1; [|discriminate].
    inversion E; subst s. clear E.
    assert (Vd : eval_q d (upd B s1 d None) = spec d).
    { apply query_correct. intros x Hx. assert (x <> d) by (intros ->; auto).
      rewrite upd_other; auto. eapply IH; eauto. }
    apply in_app_or in Ht. destruct Ht as [Ht|[<-|[]]].
    - assert (t <> d) by (intros ->; auto). rewrite !upd_other; auto. eapply IH; eauto.
    - rewrite upd_same. f_equal. auto.
  Qed.

  Theorem result_is_spec : forall l main, WF l -> incl (reads main) l ->
    forall s0 s, run l s0 = Some s -> result B eval_q main s = spec main.
  Proof.
    intros. apply query_correct. intros t Ht. eapply tables_hold_spec; eauto.
  Qed.

  (* histories: a file is `clean` when every table in it holds the specified bag; any run of any
     predicate keeps the file clean (so interleaved runs of different predicates never leave a
     stale table behind) *)
  Definition clean (s : store B) : Prop := forall t, s t = None \/ s t = Some (spec t).

  Theorem run_keeps_clean : forall l, WF l -> forall s0 s, clean s0 -> run l s0 = Some s -> clean s.
  Proof.
    intros l W s0 s Hc E t. destruct (in_dec Nat.eq_dec t l) as [Hi|Hn].
    - right. eapply tables_hold_spec; eauto.
    - destruct (run_total_and_canonical l W s0) as (s1 & E1 & U & _). rewrite E in E1.
      inversion E1; subst. rewrite U; auto.
  Qed.
End ProgramProofs.
