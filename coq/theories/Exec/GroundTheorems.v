(* End-to-end statements for C17: the compiler's traversal (script) composed with the execution of
   the emitted statements against a persistent store. *)
From Coq Require Import List Bool Arith Lia.
Import ListNotations.
From LV Require Import Exec.Ground Exec.GroundProofs.

Section EndToEnd.
  Variable grounded : pred -> bool.
  Variable deps : pred -> list pred.
  Variable reads : pred -> list pred.
  Variable B : Type.
  Variable eval_q : pred -> store B -> B.
  Variable spec : pred -> B.

  Definition acyclic : Prop := forall p d, In d (deps p) -> d < p.
  Definition reads_frontier : Prop := forall p t, In t (reads p) ->
    exists d, In d (deps p) /\ ((grounded d = true /\ t = d) \/ (grounded d = false /\ In t (reads d))).
  Definition deterministic : Prop := forall d (s s' : store B),
    (forall t, In t (reads d) -> s t = s' t) -> eval_q d s = eval_q d s'.
  Definition queries_correct : Prop := forall d (s : store B),
    (forall t, In t (reads d) -> s t = Some (spec t)) -> eval_q d s = spec d.

  Hypothesis Hacyc : acyclic.
  Hypothesis Hreads : reads_frontier.

  (* the statements emitted when `main` is requested, and one run of them *)
  Definition script_for (main : pred) : list pred := script grounded deps (S main) main.
  Definition run_pred (main : pred) (s : store B) : option (store B) := run_script B eval_q (script_for main) s.

  Lemma wf_script : forall main, WF reads (script_for main).
  Proof. intros. apply (exports_postorder grounded deps reads Hacyc Hreads). lia. Qed.

  Theorem e2e_postorder : forall main l1 d l2, script_for main = l1 ++ d :: l2 ->
    incl (reads d) l1 /\ ~ In d l1 /\ ~ In d l2.
  Proof.
    intros main l1 d l2 E. split. eapply WF_before; eauto. apply wf_script.
    pose proof (WF_nodup reads _ (wf_script main)) as N. rewrite E in N.
    apply NoDup_remove_2 in N. split; intros H; apply N, in_or_app; auto.
  Qed.

  Theorem e2e_in_fuel : forall main, ok (compile grounded deps (S main) main) = true.
  Proof. intros. apply (script_not_out_of_fuel grounded deps reads Hacyc Hreads). lia. Qed.

  Theorem e2e_self_request : forall main, ~ In main (script_for main).
  Proof. intros. apply (self_request_writes_nothing grounded deps reads Hacyc Hreads). lia. Qed.

  Theorem e2e_main_reads : forall main, incl (reads main) (script_for main).
  Proof. intros. apply (main_reads_written grounded deps reads Hacyc Hreads). lia. Qed.

  Hypothesis Hdet : deterministic.

  Theorem e2e_run : forall main s0, exists s, run_pred main s0 = Some s /\
    (forall t, ~ In t (script_for main) -> s t = s0 t) /\
    (forall t, In t (script_for main) -> s t = Some (eval_q t s)) /\
    s main = s0 main.
  Proof.
    intros main s0.
    destruct (run_total_and_canonical reads B eval_q Hdet _ (wf_script main) s0) as (s & E & U & V & _).
    exists s. split; [auto|]. split; [auto|]. split; [auto|]. apply U. apply e2e_self_request.
  Qed.

  Theorem e2e_rerun : forall main s0 s, run_pred main s0 = Some s ->
    exists s', run_pred main s = Some s' /\ (forall t, s' t = s t) /\
               result B eval_q main s' = result B eval_q main s.
  Proof.
    intros main s0 s E.
    destruct (rerun_idempotent reads B eval_q Hdet _ (wf_script main) s0 s E) as (s' & E' & Eq).
    exists s'. split; [auto|]. split; [auto|].
    eapply (rerun_same_result reads B eval_q Hdet); eauto. apply wf_script. apply e2e_main_reads.
  Qed.

  Hypothesis Hcorrect : queries_correct.

  Theorem e2e_faithful : forall main s0 s, run_pred main s0 = Some s ->
    (forall t, In t (script_for main) -> s t = Some (spec t)) /\ result B eval_q main s = spec main.
  Proof.
    intros main s0 s E. split.
    - intros t Ht. eapply (tables_hold_spec reads B eval_q spec Hcorrect); eauto. apply wf_script.
    - eapply (result_is_spec reads B eval_q spec Hcorrect); eauto. apply wf_script. apply e2e_main_reads.
  Qed.

  (* histories of requests against one file *)
  Fixpoint run_history (ps : list pred) (s : store B) : option (store B) :=
    match ps with
    | [] => Some s
    | p :: tl => match run_pred p s with Some s' => run_history tl s' | None => None end
    end.

  Definition present (s : store B) (t : pred) : Prop := s t <> None.

  Lemma run_keeps_present : forall main s0 s t, run_pred main s0 = Some s -> present s0 t -> present s t.
  Proof.
    intros main s0 s t E P. destruct (e2e_run main s0) as (s1 & E1 & U & V & _).
    rewrite E in E1. inversion E1; subst s1.
    destruct (in_dec Nat.eq_dec t (script_for main)) as [Hi|Hn].
    - unfold present. rewrite V; auto. discriminate.
    - unfold present. rewrite U; auto.
  Qed.

  Theorem e2e_history : forall ps s0, clean B spec s0 ->
    exists s, run_history ps s0 = Some s /\ clean B spec s /\
      (forall t, present s0 t -> present s t) /\
      (forall p t, In p ps -> In t (script_for p) -> s t = Some (spec t)).
  Proof.
    induction ps as [|p tl IH]; intros s0 Hc; simpl.
    - exists s0. repeat split; auto. intros p t [].
    - destruct (e2e_run p s0) as (s1 & E1 & U1 & V1 & _). rewrite E1.
      assert (C1 : clean B spec s1).
      { eapply (run_keeps_clean reads B eval_q Hdet spec Hcorrect); eauto. apply wf_script. }
      destruct (IH s1 C1) as (s & E & C & P & T). exists s. split; auto. split; auto. split.
      + intros t Pt. apply P. eapply run_keeps_present; eauto.
      + intros q t [<-|Hq] Ht; [|eauto].
        assert (Pr : present s t). { apply P. unfold present. rewrite V1; auto. discriminate. }
        destruct (C t) as [N|S]; auto. contradiction.
  Qed.
End EndToEnd.
