(* Theorems about the decision functions regenerated from compiler/universe.py
   (coq/gen/PlanRules.v): re-checked by make against what the source says now. *)
From Coq Require Import List Bool ZArith String Lia.
Import ListNotations.
From LV Require Import Exec.PyVal.
From LVGen Require Import PlanRules.
Open Scope string_scope.

(* ---- strings ---- *)
Lemma sapp_nil_r : forall s, s ++ "" = s.
Proof. induction s; simpl; congruence. Qed.

Lemma sapp_assoc : forall a b c, (a ++ b) ++ c = a ++ (b ++ c).
Proof. induction a; simpl; intros; congruence. Qed.

(* ---- what is expected of the clauses ---- *)
(* the LIMIT clause for limit k, as SQL text *)
Definition limit_text (k : nat) : string := " LIMIT " ++ fmt_d (Z.of_nat k).

(* structured ORDER BY keys: (column expression, descending marker as a separate argument "DESC") *)
Definition okey := (string * bool)%type.
Fixpoint flat (keys : list okey) : list string :=
  match keys with
  | [] => []
  | (c, true) :: tl => c :: "DESC" :: flat tl
  | (c, false) :: tl => c :: flat tl
  end.
Definition render_key (k : okey) : string := if snd k then fst k ++ " DESC" else fst k.
Definition orderby_text (keys : list okey) : string := " ORDER BY " ++ join ", " (map render_key keys).

(* p carries an ordering (at least one key) / a limit *)
Definition has_order (a : Ann) : Prop := exists x l, order_by a = Some (x :: l).
Definition has_limit (a : Ann) : Prop := exists k : nat, limit_of a = Some (Z.of_nat k).
Definition has_pos_limit (a : Ann) : Prop := exists k : nat, k <> 0 /\ limit_of a = Some (Z.of_nat k).

Lemma truthy_pos : forall k, k <> 0 -> truthy_optZ (Some (Z.of_nat k)) = true.
Proof. intros [|k] H; [congruence|reflexivity]. Qed.

(* ---- LIMIT ---- *)
Theorem limit_clause_positive : forall a k, k <> 0 -> limit_of a = Some (Z.of_nat k) ->
  limit_clause a = limit_text k.
Proof.
  intros a k Hk H. unfold limit_clause, limit_text, sapp. rewrite H.
  cbv zeta. cbn [is_none negb get_optZ].
  rewrite ?truthy_pos by assumption. rewrite ?sapp_nil_r. reflexivity.
Qed.

Theorem limit_clause_unannotated : forall a, limit_of a = None -> limit_clause a = "".
Proof. intros a H. unfold limit_clause. rewrite H. reflexivity. Qed.

(* ---- ORDER BY ---- *)
Theorem orderby_clause_unannotated : forall a, order_by a = None -> orderby_clause a = "".
Proof. intros a H. unfold orderby_clause. rewrite H. reflexivity. Qed.

Definition adj_rule (f : string -> string -> string) : Prop :=
  forall cur next, f cur next = if String.eqb next "DESC" then cur else cur ++ ",".

Definition walk (f : string -> string -> string) (l : list string) : list string :=
  (map_adj f l ++ [last_of l])%list.

Lemma walk_cons2 : forall f x y r, walk f (x :: y :: r) = f x y :: walk f (y :: r).
Proof. reflexivity. Qed.

Lemma join_cons2 : forall sep x y r, join sep (x :: y :: r) = x ++ sep ++ join sep (y :: r).
Proof. reflexivity. Qed.

Lemma walk_head : forall f x r, exists y r', walk f (x :: r) = y :: r'.
Proof. intros f x [|y r]; unfold walk; simpl; eauto. Qed.

Lemma flat_head : forall c d tl, exists r, flat ((c, d) :: tl) = c :: r.
Proof. intros c [|] tl; simpl; eauto. Qed.

Lemma walk_flat : forall f, adj_rule f -> forall keys, keys <> [] ->
  (forall k, In k keys -> fst k <> "DESC") ->
  join " " (walk f (flat keys)) = join ", " (map render_key keys).
Proof.
  intros f Hf. induction keys as [|[c d] tl IH]; intros Hne Hk. congruence.
  destruct tl as [|[c2 d2] tl'].
  - destruct d.
    + unfold walk. cbn [flat map_adj app]. rewrite Hf. cbn. reflexivity.
    + unfold walk, render_key. cbn. reflexivity.
  - assert (IH' := IH ltac:(discriminate) ltac:(intros; apply Hk; right; auto)). clear IH.
    assert (Hc2 : String.eqb c2 "DESC" = false).
    { apply String.eqb_neq. apply (Hk (c2, d2)). right; left; auto. }
    destruct (flat_head c2 d2 tl') as [r Hr].
    change (map render_key ((c, d) :: (c2, d2) :: tl'))
      with (render_key (c, d) :: render_key (c2, d2) :: map render_key tl').
    rewrite join_cons2.
    change (render_key (c2, d2) :: map render_key tl') with (map render_key ((c2, d2) :: tl')).
    rewrite <- IH'.
    destruct d.
    + change (flat ((c, true) :: (c2, d2) :: tl')) with (c :: "DESC" :: flat ((c2, d2) :: tl')).
      rewrite Hr. rewrite !walk_cons2. rewrite !Hf. rewrite Hc2. simpl String.eqb. cbv iota.
      destruct (walk_head f c2 r) as [y [r' Hw]]. rewrite Hw. rewrite !join_cons2.
      unfold render_key; simpl fst; simpl snd. cbv iota.
      rewrite !sapp_assoc. reflexivity.
    + change (flat ((c, false) :: (c2, d2) :: tl')) with (c :: flat ((c2, d2) :: tl')).
      rewrite Hr. rewrite !walk_cons2. rewrite !Hf. rewrite Hc2.
      destruct (walk_head f c2 r) as [y [r' Hw]]. rewrite Hw. rewrite !join_cons2.
      unfold render_key; simpl fst; simpl snd. cbv iota.
      rewrite !sapp_assoc. reflexivity.
Qed.

(* keys and "DESC" markers are joined into a well-formed clause: one comma between keys, none
   before DESC *)
Theorem orderby_clause_wf : forall a keys, keys <> [] ->
  (forall k, In k keys -> fst k <> "DESC") ->
  order_by a = Some (flat keys) ->
  orderby_clause a = orderby_text keys.
Proof.
  intros a keys Hne Hk H. unfold orderby_clause, orderby_text, sapp, lapp. rewrite H. cbv zeta.
  assert (T : truthy_optlist (Some (flat keys)) = true).
  { destruct keys as [|[c d] tl]; [congruence|]. destruct (flat_head c d tl) as [r ->]. reflexivity. }
  rewrite T. cbn [get_optlist app].
  match goal with |- context [map_adj ?f (flat keys)] =>
    change (map_adj f (flat keys) ++ [last_of (flat keys)])%list with (walk f (flat keys));
    rewrite (walk_flat f) end; auto.
  intros cur next. unfold str_ne. destruct (String.eqb next "DESC"); reflexivity.
Qed.

(* ---- injection ---- *)
Theorem ordered_not_injected_nonzero : forall a, has_order a \/ has_pos_limit a -> ok_injection a = false.
Proof.
  intros a [[x [l H]]|[k [Hk H]]]; unfold ok_injection; rewrite H; cbn [is_none negb truthy_optlist];
    rewrite ?truthy_pos by assumption; rewrite ?orb_true_r; reflexivity.
Qed.

Theorem plain_is_injectable : ok_injection plain = true.
Proof. reflexivity. Qed.

(* ---- status of the two full-strength statements (they hinge on K = 0) ---- *)
Definition limit_clause_all_k_stmt : Prop :=
  forall a k, limit_of a = Some (Z.of_nat k) -> limit_clause a = limit_text k.
Definition ordered_not_injected_stmt : Prop :=
  forall a, has_order a \/ has_limit a -> ok_injection a = false.

Definition ann_limit0 : Ann := mkAnn None (Some 0%Z) false false false false.

Theorem limit_clause_status :
  limit_clause_all_k_stmt \/
  (limit_clause ann_limit0 = "" /\ ~ limit_clause_all_k_stmt).
Proof.
  first
  [ right; split; [reflexivity|];
    intros H; specialize (H ann_limit0 0 eq_refl); vm_compute in H; discriminate
  | left; intros a k H; destruct k as [|k];
    [ unfold limit_clause, limit_text, sapp; rewrite H; reflexivity
    | apply limit_clause_positive; [discriminate|assumption] ] ].
Qed.

Theorem ordered_not_injected_status :
  ordered_not_injected_stmt \/
  (ok_injection ann_limit0 = true /\ ~ ordered_not_injected_stmt).
Proof.
  first
  [ right; split; [reflexivity|];
    intros H; specialize (H ann_limit0 (or_intror (ex_intro _ 0 eq_refl))); vm_compute in H; discriminate
  | left; intros a [Ho|[k H]];
    [ apply ordered_not_injected_nonzero; left; assumption
    | destruct k as [|k];
      [ unfold ok_injection; rewrite H; cbn [is_none negb]; rewrite ?orb_true_r; reflexivity
      | apply ordered_not_injected_nonzero; right; exists (S k); split; [discriminate|assumption] ] ] ].
Qed.
