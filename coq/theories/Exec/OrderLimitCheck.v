(* Executable helper for the harness (props/c18.py): evaluates the oracle on a batch of cases and
   prints one flat list of integers.  Values are ranks >= 0; -1 ends a row, -2 ends a case. *)
From Coq Require Import List ZArith.
Import ListNotations.
From LV Require Import Exec.OrderLimit.

Definition ol_case := (list key * option nat * list zrow)%type.

Definition run_case (c : ol_case) : list Z :=
  let '(keys, lim, rows) := c in
  (flat_map (fun r => r ++ [(-1)%Z]) (order_limit_rows keys lim rows) ++ [(-2)%Z])%list.

Definition run_cases (cs : list ol_case) : list Z := flat_map run_case cs.
