(* Exec/Concertina.v — executable model of /repo/common/concertina_lib.py (class Concertina).

   Model only (no proofs).  Mirrors, function by function:
     UnderstandIterations            -> iter_of, upper/lower, half_requires, requires, understand_ok
     SortActions                     -> is_ataman, pass (the inner `for`), sort_loop (the `while`), sort_actions
     ActionIterationWantsToStopBySignal -> poll (the file test is the oracle `raised`; wrench_in_gears is state)
     UpdateStateForIterativeAction   -> the iterated branch of step, insert_after_run
     RunOneAction / Run              -> step / run
   and, independent of those, the Spec `valid_trace` (a predicate on traces).

   Names of actions, iterations and stop signals are interned as nat by the harness; action names are
   numbered by Python's sorted() order, so that `sorted(actions_to_assign & atamans)` is numeric order.
   Domain of faithfulness (`wfb`): distinct action names, distinct iteration ids, every member list
   duplicate free, member lists pairwise disjoint (Python dicts would resolve overlaps by "last wins";
   the model does not mirror that).  Members that are not actions and requirements that are not actions
   are mirrored.  Repetitions: nat (the harness clamps negative values to 0: `count >= reps` is then
   true at the first test in both cases). *)
From Coq Require Import List Bool Arith Lia.
Import ListNotations.

Definition name := nat.
Definition signal := nat.

Record action := mkA { a_name : name; a_requires : list name }.
Record iteration := mkI { i_id : nat; i_members : list name; i_reps : nat;
                          i_stop : option signal; i_diamond : bool }.

Definition mem (x : nat) (l : list nat) : bool := existsb (Nat.eqb x) l.
Definition subset (l1 l2 : list nat) : bool := forallb (fun x => mem x l2) l1.
Definition remove_all (xs l : list nat) : list nat := filter (fun x => negb (mem x xs)) l.
Definition remove_one (a : nat) (l : list nat) : list nat := filter (fun x => negb (x =? a)) l.

Fixpoint insert_sorted (x : nat) (l : list nat) : list nat :=
  match l with
  | [] => [x]
  | y :: t => if x <=? y then x :: l else y :: insert_sorted x t
  end.
Definition sort_names (l : list nat) : list nat := fold_right insert_sorted [] l.

Inductive outcome := Ok (l : list name) | AssertFail | OutOfFuel.

Section Model.
  Variable cfg : list action.
  Variable its : list iteration.

  Definition names : list name := map a_name cfg.
  Definition is_action (a : name) : bool := mem a names.

  (* self.action_iteration (queried for actions only) *)
  Definition iter_of (a : name) : option iteration :=
    find (fun it => mem a (i_members it)) its.

  Definition same_iter (it : iteration) (x : name) : bool :=
    match iter_of x with Some j => i_id j =? i_id it | None => false end.

  (* self.half_iteration_actions *)
  Definition upper (it : iteration) : list name :=
    if i_diamond it then i_members it
    else firstn (Nat.div2 (length (i_members it))) (i_members it).
  Definition lower (it : iteration) : list name :=
    if i_diamond it then []
    else skipn (Nat.div2 (length (i_members it))) (i_members it).

  (* the `assert len(predicates) % 2 == 0` of UnderstandIterations *)
  Definition understand_ok : bool :=
    forallb (fun it => i_diamond it || Nat.even (length (i_members it))) its.

  (* self.action_half_iteration: (iteration id, is-upper) *)
  Definition half_key (a : name) : option (nat * bool) :=
    match iter_of a with
    | None => None
    | Some it => Some (i_id it, mem a (upper it))
    end.
  Definition half_members (a : name) : list name :=
    match iter_of a with
    | None => []
    | Some it => if mem a (upper it) then upper it else lower it
    end.
  Definition same_half (a b : name) : bool :=
    match half_key a, half_key b with
    | Some (i, u), Some (j, v) => (i =? j) && Bool.eqb u v
    | _, _ => false
    end.

  (* set(self.action[a]['requires']) *)
  Definition own_requires (a : name) : list name :=
    flat_map (fun act => if a_name act =? a then a_requires act else []) cfg.
  (* half_iteration_requires[action_half_iteration[a]] *)
  Definition half_requires (a : name) : list name :=
    flat_map (fun act => if same_half a (a_name act) then a_requires act else []) cfg.
  (* self.action_requires[a] after the propagation loop *)
  Definition requires (a : name) : list name :=
    own_requires a ++ filter (fun r => negb (mem r (half_members a))) (half_requires a).

  (* ---------------- SortActions ---------------- *)
  Definition is_ataman (a : name) : bool :=
    match iter_of a with
    | None => true
    | Some it => match i_members it with m :: _ => m =? a | [] => false end
    end.

  (* the body of `for a in eligible`; returns (complete, actions_to_assign, result, assigning_iteration) *)
  Fixpoint pass (elig complete todo result : list name)
    : list name * list name * list name * option iteration :=
    match elig with
    | [] => (complete, todo, result, None)
    | a :: rest =>
      if subset (requires a) complete then
        let complete' := a :: complete in
        let todo' := remove_one a todo in
        let result' := result ++ [a] in
        match iter_of a with
        | Some it =>
          (complete', todo', result',
           if existsb (fun m => mem m todo') (i_members it) then Some it else None)   (* break *)
        | None => pass rest complete' todo' result'
        end
      else pass rest complete todo result
    end.

  (* the `while actions_to_assign` loop; todo is kept in sorted order *)
  Fixpoint sort_loop (fuel : nat) (ai : option iteration) (complete todo result : list name) : outcome :=
    match fuel with
    | 0 => OutOfFuel
    | S f =>
      match todo with
      | [] => Ok result
      | _ :: _ =>
        match ai with
        | Some it =>
          let elig := filter (fun m => mem m todo) (i_members it) in
          sort_loop f None (elig ++ complete) (remove_all elig todo) (result ++ elig)
        | None =>
          match pass (filter is_ataman todo) complete todo result with
          | (c', t', r', ai') =>
            if length t' =? length todo then AssertFail     (* assert False, "Could not schedule" *)
            else sort_loop f ai' c' t' r'
          end
        end
      end
    end.

  Definition sort_fuel : nat := 2 * length cfg + 2.
  Definition sort_actions : outcome :=
    if understand_ok then sort_loop sort_fuel None [] (sort_names names) [] else AssertFail.

  (* ---------------- Run ---------------- *)
  Section Run.
    (* the stop-signal oracle: is the signal's file non-empty right after the given trace was executed *)
    Variable raised : list name -> signal -> bool.

    Record st := mkSt { q : list name;            (* actions_to_run *)
                        cnt : name -> nat;        (* action_iterations_complete *)
                        wrench : list signal;     (* wrench_in_gears *)
                        trace : list name }.      (* calls received by engine.Run *)

    Definition upd (f : name -> nat) (a : name) (v : nat) : name -> nat :=
      fun x => if x =? a then v else f x.

    (* ActionIterationWantsToStopBySignal *)
    Definition poll (w : list signal) (tr : list name) (s : option signal) : bool * list signal :=
      match s with
      | None => (false, w)
      | Some sg => if mem sg w then (true, w)
                   else if raised tr sg then (true, sg :: w) else (false, w)
      end.

    (* actions_to_run[i:i] = [one_action] after the leading entries of the same iteration *)
    Fixpoint insert_after_run (it : iteration) (a : name) (l : list name) : list name :=
      match l with
      | x :: t => if same_iter it x then x :: insert_after_run it a t else a :: l
      | [] => [a]
      end.

    (* RunOneAction + UpdateStateForIterativeAction *)
    Definition step (s : st) : option st :=
      match q s with
      | [] => None
      | a :: q' =>
        let tr := trace s ++ [a] in
        match iter_of a with
        | None => Some (mkSt q' (cnt s) (wrench s) tr)
        | Some it =>
          let c := S (cnt s a) in
          let cnt' := upd (cnt s) a c in
          if i_reps it <=? c then Some (mkSt q' cnt' (wrench s) tr)
          else match poll (wrench s) tr (i_stop it) with
               | (true, w') => Some (mkSt q' cnt' w' tr)
               | (false, w') => Some (mkSt (insert_after_run it a q') cnt' w' tr)
               end
        end
      end.

    Fixpoint run (fuel : nat) (s : st) : st :=
      match fuel with
      | 0 => s
      | S f => match step s with None => s | Some s' => run f s' end
      end.

    Definition init (l : list name) : st := mkSt l (fun _ => 0) [] [].

    Definition weight (a : name) : nat :=
      match iter_of a with None => 1 | Some it => Nat.max (i_reps it) 1 end.
    (* explicit bound on the number of engine calls *)
    Definition run_bound (l : list name) : nat := list_sum (map weight l).

    Definition execute : option (list name) :=
      match sort_actions with
      | Ok l => Some (trace (run (run_bound l) (init l)))
      | _ => None
      end.
  End Run.

  (* ---------------- hypotheses as booleans ---------------- *)
  Fixpoint nodupb (l : list nat) : bool :=
    match l with [] => true | x :: t => negb (mem x t) && nodupb t end.
  Fixpoint pairwise_disjoint (ls : list (list nat)) : bool :=
    match ls with
    | [] => true
    | l :: t => forallb (fun l' => forallb (fun x => negb (mem x l')) l) t && pairwise_disjoint t
    end.
  Definition wfb : bool :=
    nodupb names && nodupb (map i_id its) && forallb (fun it => nodupb (i_members it)) its
    && pairwise_disjoint (map i_members its).

  Fixpoint before (m : name) (l : list name) : list name :=   (* members declared before m *)
    match l with [] => [] | x :: t => if x =? m then [] else x :: before m t end.

  (* iter_closed: every requirement of every member is either checked when the block is admitted (it is
     among the propagated requirements of the first member) or is an earlier member of the same block *)
  Definition iter_closedb : bool :=
    forallb (fun it =>
      match i_members it with
      | [] => true
      | m0 :: _ =>
        forallb (fun m => negb (is_action m) ||
                   forallb (fun r => mem r (requires m0) ||
                                     (mem r (before m (i_members it)) && is_action r))
                           (own_requires m))
                (i_members it)
      end) its.
End Model.

(* =====================================================================================
   Spec: what a correct execution trace is.  Written against the config only (own requirements,
   membership, repetitions, signal, declared order) — no queue, no sorting, no propagation.  *)
Section Spec.
  Variable cfg : list action.
  Variable its : list iteration.
  Variable raised : list name -> signal -> bool.

  Fixpoint count (a : name) (l : list name) : nat :=
    match l with [] => 0 | x :: t => (if x =? a then 1 else 0) + count a t end.

  Fixpoint index_of (a : name) (l : list name) : nat :=
    match l with [] => 0 | x :: t => if x =? a then 0 else S (index_of a t) end.

  (* every split  pre ++ a :: post  of the trace satisfies f *)
  Fixpoint all_splits (f : list name -> name -> list name -> bool) (pre t : list name) : bool :=
    match t with
    | [] => true
    | a :: post => f pre a post && all_splits f (pre ++ [a]) post
    end.
  Fixpoint some_split (f : list name -> name -> bool) (pre t : list name) : bool :=
    match t with
    | [] => false
    | a :: post => f pre a || some_split f (pre ++ [a]) post
    end.

  (* (a) the trace consists of actions, every action occurs, non-iterated ones exactly once *)
  Definition v_once (t : list name) : bool :=
    subset t (names cfg) && subset (names cfg) t &&
    forallb (fun a => match iter_of its a with None => count a t =? 1 | Some _ => true end) (names cfg).

  (* the occurrence of a right after pre polls its signal and finds it raised *)
  Definition sees (sg : signal) (pre : list name) (a : name) : bool :=
    match iter_of its a with
    | None => false
    | Some it => match i_stop it with
                 | Some sg' => (sg' =? sg) && (S (count a pre) <? i_reps it) && raised (pre ++ [a]) sg
                 | None => false
                 end
    end.
  (* some poll among the first occurrences (those in l) has seen the signal *)
  Definition observed (sg : signal) (l : list name) : bool := some_split (sees sg) [] l.

  (* (b) stop rule: an iterated action occurs again iff it has run fewer than reps times and its
     signal has not been observed at any poll so far (the one after this occurrence included) *)
  Definition v_stop (t : list name) : bool :=
    all_splits (fun pre a post =>
      match iter_of its a with
      | None => true
      | Some it =>
        let go := (S (count a pre) <? i_reps it) &&
                  negb (match i_stop it with Some sg => observed sg (pre ++ [a]) | None => false end) in
        Bool.eqb (mem a post) go
      end) [] t.

  (* (b) rounds: the occurrences of one iteration are contiguous and ordered by
     (occurrence number, declared position) *)
  Definition v_rounds (t : list name) : bool :=
    all_splits (fun pre a post =>
      match iter_of its a with
      | None => true
      | Some it =>
        match post with
        | [] => true
        | b :: _ =>
          if same_iter its it b then
            let ka := count a pre in let kb := count b (pre ++ [a]) in
            (ka <? kb) || ((ka =? kb) && (index_of a (i_members it) <? index_of b (i_members it)))
          else negb (existsb (same_iter its it) post)
        end
      end) [] t.

  (* (c) every occurrence is preceded by an occurrence of each of its (own) requirements *)
  Definition v_deps (t : list name) : bool :=
    all_splits (fun pre a _ => subset (own_requires cfg a) pre) [] t.

  Definition valid_trace (t : list name) : bool := v_once t && v_stop t && v_rounds t && v_deps t.
End Spec.
