(* Exec/ConcertinaCheck.v — executable helpers used by props/c14.py (no theorems).
   A case carries the config, the stop-signal schedule and what the real Concertina did;
   `judge` compares it with the model and evaluates the Spec on the REAL trace. *)
From Coq Require Import List Bool Arith.
Import ListNotations.
From LV Require Import Exec.Concertina.

(* schedule: for each signal the state of its file after the k-th engine call (k = 1, 2, ...) *)
Definition sched_oracle (sch : list (signal * list bool)) : list name -> signal -> bool :=
  fun tr sg =>
    match find (fun p => fst p =? sg) sch with
    | Some (_, bs) => nth (length tr - 1) bs false
    | None => false
    end.

Fixpoint eq_list (a b : list nat) : bool :=
  match a, b with
  | [], [] => true
  | x :: a', y :: b' => (x =? y) && eq_list a' b'
  | _, _ => false
  end.

Record case := mkCase {
  k_cfg : list action; k_its : list iteration; k_sched : list (signal * list bool);
  k_assert : bool;              (* the constructor raised AssertionError *)
  k_sorted : list name;         (* actions_to_run after construction *)
  k_trace : list name }.        (* names received by engine.Run *)

Definition bit (b : bool) (v : nat) : nat := if b then v else 0.

(* bits:   1 outcome kind differs (or model out of fuel)     2 sorted list differs      4 trace differs
           8 real trace: v_once false     16 real trace: v_deps false      32 iter_closedb false
          64 wfb false                   128 model trace fails the Spec (deps apart)
         256 real trace: v_stop false    512 real trace: v_rounds false
        1024 model run did not empty the queue within run_bound *)
Definition judge (k : case) : nat :=
  let cfg := k_cfg k in let its := k_its k in
  let orc := sched_oracle (k_sched k) in
  let base := bit (negb (iter_closedb cfg its)) 32 + bit (negb (wfb cfg its)) 64 in
  match sort_actions cfg its with
  | OutOfFuel => 1 + base
  | AssertFail => bit (negb (k_assert k)) 1 + base
  | Ok l =>
    if k_assert k then 1 + base else
    let fin := run its orc (run_bound its l) (init l) in
    let mt := trace fin in
    let rt := k_trace k in
    base
    + bit (negb (eq_list l (k_sorted k))) 2
    + bit (negb (eq_list mt rt)) 4
    + bit (negb (v_once cfg its rt)) 8
    + bit (negb (v_deps cfg rt)) 16
    + bit (negb (v_once cfg its mt && v_stop its orc mt && v_rounds its mt)) 128
    + bit (negb (v_stop its orc rt)) 256
    + bit (negb (v_rounds its rt)) 512
    + bit (match q fin with [] => false | _ => true end) 1024
  end.
