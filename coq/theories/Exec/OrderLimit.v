(* Spec / oracle for C18: what `ORDER BY keys [LIMIT k]` denotes.
   result list = firstn k (sort rows) for the order given by the keys.  Model only; proofs in
   OrderLimitProofs.v.  The harness evaluates `order_limit_rows` on the same inputs as SQLite. *)
From Coq Require Import List Bool ZArith Arith.
Import ListNotations.

Section Abstract.
  Variable row : Type.
  Variable leb : row -> row -> bool.

  Fixpoint insert (x : row) (l : list row) : list row :=
    match l with
    | [] => [x]
    | y :: tl => if leb x y then x :: l else y :: insert x tl
    end.

  Fixpoint sort (l : list row) : list row :=
    match l with
    | [] => []
    | x :: tl => insert x (sort tl)
    end.

  (* limit = None: no LIMIT clause *)
  Definition order_limit (limit : option nat) (rows : list row) : list row :=
    match limit with
    | Some k => firstn k (sort rows)
    | None => sort rows
    end.

End Abstract.

Arguments insert {row}.
Arguments sort {row}.
Arguments order_limit {row}.

(* Concrete rows: lists of integers (strings are interned by the harness as their rank).
   A key is (column index, descending?). *)
Definition zrow := list Z.
Definition key := (nat * bool)%type.

Definition col (c : nat) (r : zrow) : Z := nth c r 0%Z.

Fixpoint lex_leb (keys : list key) (a b : zrow) : bool :=
  match keys with
  | [] => true
  | (c, desc) :: tl =>
      let x := col c a in let y := col c b in
      if Z.eqb x y then lex_leb tl a b
      else if desc then Z.ltb y x else Z.ltb x y
  end.

Definition order_limit_rows (keys : list key) (limit : option nat) (rows : list zrow) : list zrow :=
  order_limit (lex_leb keys) limit rows.

(* keys mention every column 0..n-1 *)
Definition covers (keys : list key) (n : nat) : bool :=
  forallb (fun c => existsb (fun k => Nat.eqb (fst k) c) keys) (seq 0 n).
