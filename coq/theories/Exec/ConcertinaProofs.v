(* Exec/ConcertinaProofs.v — proofs about the model Exec/Concertina.v.
   Part 1: SortActions as a transition system (moves), invariants: permutation, blocks contiguous, topological
           under iter_closed; fuel sufficiency; the refutation witness without iter_closed.
   Part 2: Run: termination with the explicit bound, counts, dependency order — for every oracle. *)
From Coq Require Import List Bool Arith Lia Permutation.
Import ListNotations.
From LV Require Import Exec.Concertina.

(* ------------------------------------------------------------------ basics *)
Lemma mem_In : forall x l, mem x l = true <-> In x l.
Proof.
  intros x l. unfold mem. rewrite existsb_exists. split.
  - intros [y [Hy E]]. apply Nat.eqb_eq in E. subst. exact Hy.
  - intros H. exists x. split; [exact H | apply Nat.eqb_refl].
Qed.

Lemma mem_false : forall x l, mem x l = false <-> ~ In x l.
Proof.
  intros. split.
  - intros E H. apply mem_In in H. congruence.
  - intros H. destruct (mem x l) eqn:E; auto. apply mem_In in E. contradiction.
Qed.

Lemma subset_spec : forall l1 l2, subset l1 l2 = true <-> (forall x, In x l1 -> In x l2).
Proof.
  intros. unfold subset. rewrite forallb_forall. split; intros H x Hx.
  - apply mem_In. auto.
  - apply mem_In. auto.
Qed.

Lemma In_remove_one : forall a x l, In x (remove_one a l) <-> In x l /\ x <> a.
Proof.
  intros. unfold remove_one. rewrite filter_In. rewrite negb_true_iff, Nat.eqb_neq. tauto.
Qed.

Lemma In_remove_all : forall xs x l, In x (remove_all xs l) <-> In x l /\ ~ In x xs.
Proof.
  intros. unfold remove_all. rewrite filter_In. rewrite negb_true_iff, mem_false. tauto.
Qed.

Lemma NoDup_filter : forall (f : nat -> bool) l, NoDup l -> NoDup (filter f l).
Proof.
  induction l; simpl; intros H; [constructor|]. inversion H; subst.
  destruct (f a); auto. constructor; auto. rewrite filter_In. tauto.
Qed.

Lemma insert_sorted_perm : forall x l, Permutation (insert_sorted x l) (x :: l).
Proof.
  induction l; simpl; auto. destruct (x <=? a); auto.
  eapply perm_trans; [apply perm_skip, IHl | apply perm_swap].
Qed.

Lemma sort_names_perm : forall l, Permutation (sort_names l) l.
Proof.
  induction l; simpl; auto. eapply perm_trans; [apply insert_sorted_perm | auto].
Qed.

(* ------------------------------------------------------------------ Part 1: SortActions *)
Section SortProofs.
  Variable cfg : list action.
  Variable its : list iteration.

  Definition sstate := (option iteration * list name * list name)%type.   (* assigning_iteration, to assign, result *)

  Definition elig_of (it : iteration) (todo : list name) := filter (fun m => mem m todo) (i_members it).

  (* what one pass of the `for` body / one round of the `while` does *)
  Inductive move : sstate -> sstate -> Prop :=
  | mv_single : forall todo result a,
      In a todo -> iter_of its a = None ->
      (forall r, In r (requires cfg its a) -> In r result) ->
      move (None, todo, result) (None, remove_one a todo, result ++ [a])
  | mv_ataman : forall todo result a it,
      In a todo -> iter_of its a = Some it -> is_ataman its a = true ->
      (forall r, In r (requires cfg its a) -> In r result) ->
      move (None, todo, result)
           (if existsb (fun m => mem m (remove_one a todo)) (i_members it) then Some it else None,
            remove_one a todo, result ++ [a])
  | mv_block : forall todo result it,
      move (Some it, todo, result)
           (None, remove_all (elig_of it todo) todo, result ++ elig_of it todo).

  Inductive moves : sstate -> sstate -> Prop :=
  | ms_refl : forall s, moves s s
  | ms_step : forall s1 s2 s3, move s1 s2 -> moves s2 s3 -> moves s1 s3.

  Lemma pass_moves : forall elig complete todo result c' t' r' ai',
    (forall x, In x complete <-> In x result) ->
    (forall x, In x elig -> In x todo /\ is_ataman its x = true) -> NoDup elig -> NoDup todo ->
    pass cfg its elig complete todo result = (c', t', r', ai') ->
    moves (None, todo, result) (ai', t', r') /\ (forall x, In x c' <-> In x r') /\ NoDup t'.
  Proof.
    induction elig as [|a rest IH]; simpl; intros complete todo result c' t' r' ai' Hc He Hnd Hnt Hp.
    - inversion Hp; subst. split; [constructor | split; auto].
    - destruct (subset (requires cfg its a) complete) eqn:Hs.
      + assert (Hreq : forall r, In r (requires cfg its a) -> In r result).
        { intros r Hr. apply Hc. rewrite subset_spec in Hs. auto. }
        assert (Hc' : forall x, In x (a :: complete) <-> In x (result ++ [a])).
        { intros x. rewrite in_app_iff. simpl. rewrite Hc. tauto. }
        destruct (He a (or_introl eq_refl)) as [Hat Hata].
        destruct (iter_of its a) as [it|] eqn:Hit.
        * inversion Hp; subst. split; [|split; auto].
          -- eapply ms_step; [apply (mv_ataman todo result a it Hat Hit Hata Hreq) | constructor].
          -- apply NoDup_filter; auto.
        * inversion Hnd; subst.
          destruct (IH (a :: complete) (remove_one a todo) (result ++ [a]) c' t' r' ai') as [M [C N]]; auto.
          -- intros x Hx. destruct (He x (or_intror Hx)) as [Hx1 Hx2]. split; auto.
             apply In_remove_one. split; auto. intros ->. contradiction.
          -- apply NoDup_filter; auto.
          -- split; [|split; auto]. eapply ms_step; [apply (mv_single todo result a Hat Hit Hreq) | exact M].
      + inversion Hnd; subst. apply (IH complete todo result); auto.
  Qed.

  Lemma sort_loop_moves : forall fuel ai complete todo result l,
    (forall x, In x complete <-> In x result) -> NoDup todo ->
    sort_loop cfg its fuel ai complete todo result = Ok l ->
    exists ai', moves (ai, todo, result) (ai', [], l).
  Proof.
    induction fuel as [|f IH]; simpl; intros ai complete todo result l Hc Hnd H; [discriminate|].
    destruct todo as [|t0 todo'].
    - inversion H; subst. exists ai. constructor.
    - remember (t0 :: todo') as todo. destruct ai as [it|].
      + apply IH in H.
        * destruct H as [ai' M]. exists ai'. eapply ms_step; [apply mv_block | exact M].
        * intros x. rewrite !in_app_iff. rewrite Hc. tauto.
        * apply NoDup_filter; auto.
      + destruct (pass cfg its (filter (is_ataman its) todo) complete todo result) as [[[c' t'] r'] ai'] eqn:Hp.
        apply pass_moves in Hp; auto.
        * destruct Hp as [M [C N]].
          destruct (length t' =? length todo); [discriminate|].
          apply IH in H; auto. destruct H as [ai'' M']. exists ai''.
          clear - M M'. induction M; auto. eapply ms_step; eauto.
        * intros x Hx. apply filter_In in Hx. exact Hx.
        * apply NoDup_filter; auto.
  Qed.

  Lemma moves_inv : forall (P : sstate -> Prop),
    (forall s s', P s -> move s s' -> P s') -> forall s s', moves s s' -> P s -> P s'.
  Proof. intros P H s s' M. induction M; eauto. Qed.

  (* ---- well-formedness, from the boolean the harness evaluates *)
  Lemma nodupb_NoDup : forall l, nodupb l = true -> NoDup l.
  Proof.
    induction l; simpl; intros H; [constructor|]. apply andb_true_iff in H. destruct H as [H1 H2].
    constructor; auto. apply mem_false. apply negb_true_iff. exact H1.
  Qed.

  Lemma pairwise_disjoint_spec : forall ls, pairwise_disjoint ls = true ->
    forall l1 l2 pre mid post, ls = pre ++ l1 :: mid ++ l2 :: post -> forall x, In x l1 -> In x l2 -> False.
  Proof.
    induction ls as [|l ls IH]; simpl; intros H l1 l2 pre mid post E x H1 H2.
    - destruct pre; discriminate.
    - apply andb_true_iff in H. destruct H as [Ha Hb]. destruct pre as [|p pre]; simpl in E.
      + inversion E; subst. rewrite forallb_forall in Ha.
        specialize (Ha l2). rewrite forallb_forall in Ha.
        assert (In l2 (mid ++ l2 :: post)) by (apply in_app_iff; right; left; reflexivity).
        specialize (Ha H x H1). apply negb_true_iff, mem_false in Ha. contradiction.
      + inversion E; subst. eapply IH; eauto.
  Qed.

  Definition members_nodup := forall it, In it its -> NoDup (i_members it).
  Definition members_disjoint :=
    forall it1 it2 m, In it1 its -> In it2 its -> In m (i_members it1) -> In m (i_members it2) -> it1 = it2.

  Lemma wfb_split : wfb cfg its = true ->
    nodupb (names cfg) = true /\ nodupb (map i_id its) = true /\
    forallb (fun it => nodupb (i_members it)) its = true /\ pairwise_disjoint (map i_members its) = true.
  Proof.
    unfold wfb. intros H. apply andb_true_iff in H. destruct H as [H Hd].
    apply andb_true_iff in H. destruct H as [H Hc]. apply andb_true_iff in H. destruct H as [Ha Hb]. auto.
  Qed.

  Lemma wfb_names : wfb cfg its = true -> NoDup (names cfg).
  Proof. intros H. apply wfb_split in H. apply nodupb_NoDup. tauto. Qed.

  Lemma wfb_members_nodup : wfb cfg its = true -> members_nodup.
  Proof.
    intros H it Hit. apply wfb_split in H. destruct H as [_ [_ [Hc _]]].
    rewrite forallb_forall in Hc. apply nodupb_NoDup; auto.
  Qed.

  Lemma wfb_members_disjoint : wfb cfg its = true -> members_disjoint.
  Proof.
    intros H. apply wfb_split in H. destruct H as [_ [_ [_ Hd]]].
    unfold members_disjoint. revert Hd. generalize its as L. intros L Hd it1 it2 m I1 I2 M1 M2.
    destruct (in_split _ _ I1) as [p1 [q1 E1]].
    subst L. apply in_app_or in I2. destruct I2 as [I2|[I2|I2]]; auto.
    - destruct (in_split _ _ I2) as [p2 [q2 E2]]. subst p1. exfalso.
      rewrite <- app_assoc in Hd. simpl in Hd. rewrite map_app in Hd. simpl in Hd. rewrite map_app in Hd. simpl in Hd.
      eapply (pairwise_disjoint_spec _ Hd (i_members it2) (i_members it1)); eauto.
    - destruct (in_split _ _ I2) as [p2 [q2 E2]]. subst q1. exfalso.
      rewrite map_app in Hd. simpl in Hd. rewrite map_app in Hd. simpl in Hd.
      eapply (pairwise_disjoint_spec _ Hd (i_members it1) (i_members it2)); eauto.
  Qed.

  Lemma iter_of_Some : forall a it, iter_of its a = Some it -> In it its /\ In a (i_members it).
  Proof. unfold iter_of. intros a it H. apply find_some in H. rewrite mem_In in H. exact H. Qed.

  Lemma iter_of_None : forall a, iter_of its a = None -> forall it, In it its -> ~ In a (i_members it).
  Proof. unfold iter_of. intros a H it Hit. apply mem_false. eapply find_none in H; eauto. Qed.

  Lemma iter_of_unique : members_disjoint -> forall a it, In it its -> In a (i_members it) -> iter_of its a = Some it.
  Proof.
    intros D a it Hit Ha. destruct (iter_of its a) as [it'|] eqn:E.
    - apply iter_of_Some in E. destruct E. f_equal. eapply D; eauto.
    - exfalso. eapply iter_of_None; eauto.
  Qed.

  Lemma NoDup_app_intro : forall (l1 l2 : list nat),
    NoDup l1 -> NoDup l2 -> (forall x, In x l1 -> ~ In x l2) -> NoDup (l1 ++ l2).
  Proof.
    induction l1; simpl; intros l2 H1 H2 H; auto. inversion H1; subst. constructor.
    - rewrite in_app_iff. intros [?|?]; [contradiction | eapply H; eauto].
    - apply IHl1; auto.
  Qed.

  (* ---- invariant A: result and todo partition the action names *)
  Definition invA (s : sstate) : Prop :=
    match s with (ai, todo, result) =>
      (forall x, In x (names cfg) <-> In x result \/ In x todo) /\ NoDup todo /\ NoDup result /\
      (forall x, In x result -> ~ In x todo) /\ (forall it, ai = Some it -> In it its)
    end.

  Lemma invA_single : forall ai' todo result a,
    In a todo -> (forall it, ai' = Some it -> In it its) ->
    invA (None, todo, result) -> invA (ai', remove_one a todo, result ++ [a]).
  Proof.
    intros ai' todo result a Ha Hai [I1 [I2 [I3 [I4 _]]]]. unfold invA. repeat split.
    - intros Hx. apply I1 in Hx. rewrite in_app_iff, In_remove_one. simpl.
      destruct (Nat.eq_dec x a); [subst; tauto | tauto].
    - rewrite in_app_iff, In_remove_one. simpl. intros [[?|[?|[]]]|[? ?]]; apply I1; subst; auto.
    - apply NoDup_filter; auto.
    - apply NoDup_app_intro; auto.
      + constructor; [intros [] | constructor].
      + intros x Hx [E|[]]. subst. eapply I4; eauto.
    - intros x. rewrite in_app_iff, In_remove_one. simpl. intros [H|[H|[]]] [H1 H2]; [eapply I4; eauto | congruence].
    - exact Hai.
  Qed.

  Lemma invA_move : members_nodup -> forall s s', invA s -> move s s' -> invA s'.
  Proof.
    intros MN s s' I M. inversion M; subst.
    - apply invA_single; auto. intros; discriminate.
    - apply invA_single; auto. intros it' E.
      destruct (existsb _ _); inversion E; subst. apply iter_of_Some in H0. tauto.
    - destruct I as [I1 [I2 [I3 [I4 I5]]]]. specialize (I5 it eq_refl).
      assert (He : forall x, In x (elig_of it todo) <-> In x (i_members it) /\ In x todo).
      { intros x. unfold elig_of. rewrite filter_In, mem_In. tauto. }
      unfold invA. repeat split.
      + intros Hx. apply I1 in Hx. rewrite in_app_iff, In_remove_all.
        destruct (in_dec Nat.eq_dec x (elig_of it todo)); tauto.
      + rewrite in_app_iff, In_remove_all. intros [[?|?]|[? ?]]; apply I1; auto. right. apply He; auto.
      + apply NoDup_filter; auto.
      + apply NoDup_app_intro; auto.
        * apply NoDup_filter. apply MN; auto.
        * intros x Hx Hx'. apply He in Hx'. eapply I4; eauto. tauto.
      + intros x. rewrite in_app_iff, In_remove_all. intros [H|H] [H1 H2]; [eapply I4; eauto | contradiction].
      + intros; discriminate.
  Qed.

  Lemma invA_init : NoDup (names cfg) -> invA (None, sort_names (names cfg), []).
  Proof.
    intros N. unfold invA. repeat split.
    - intros H. right. eapply Permutation_in; [apply Permutation_sym, sort_names_perm | exact H].
    - intros [[]|H]. eapply Permutation_in; [apply sort_names_perm | exact H].
    - eapply Permutation_NoDup; [apply Permutation_sym, sort_names_perm | exact N].
    - constructor.
    - intros x [].
    - intros; discriminate.
  Qed.

  (* ---- invariant B: the result so far respects the (own) requirements *)
  Definition topo (l : list name) : Prop :=
    forall l1 x l2, l = l1 ++ x :: l2 -> forall r, In r (own_requires cfg x) -> In r l1.

  Lemma topo_app : forall l l', topo l ->
    (forall l1 x l2, l' = l1 ++ x :: l2 -> forall r, In r (own_requires cfg x) -> In r (l ++ l1)) ->
    topo (l ++ l').
  Proof.
    intros l l' T H m1 x m2 E r Hr. apply app_eq_app in E. destruct E as [k [[E1 E2]|[E1 E2]]].
    - destruct k as [|y k]; simpl in E2.
      + rewrite app_nil_r in E1. subst. rewrite <- (app_nil_r m1). eapply (H [] x m2); eauto.
      + inversion E2; subst. eapply T; eauto.
    - subst. eapply H; eauto.
  Qed.

  Lemma iter_closed_spec : iter_closedb cfg its = true ->
    forall it m0 rest, In it its -> i_members it = m0 :: rest ->
    forall m, In m (i_members it) -> In m (names cfg) ->
    forall r, In r (own_requires cfg m) ->
      In r (requires cfg its m0) \/ (In r (before m (i_members it)) /\ In r (names cfg)).
  Proof.
    unfold iter_closedb. intros H it m0 rest Hit E m Hm Ha r Hr.
    rewrite forallb_forall in H. specialize (H it Hit). rewrite E in H. rewrite <- E in H.
    rewrite forallb_forall in H. specialize (H m Hm).
    apply orb_true_iff in H. destruct H as [H|H].
    - apply negb_true_iff in H. unfold is_action in H. apply mem_false in H. contradiction.
    - rewrite forallb_forall in H. specialize (H r Hr). apply orb_true_iff in H. destruct H as [H|H].
      + left. apply mem_In. exact H.
      + right. apply andb_true_iff in H. destruct H as [H1 H2]. split; apply mem_In; auto.
  Qed.

  Lemma filter_before : forall (f : nat -> bool) m r L e1 e2,
    filter f L = e1 ++ m :: e2 -> In r (before m L) -> f r = true -> In r e1.
  Proof.
    induction L as [|x L IH]; simpl; intros e1 e2 E B F; [contradiction|].
    destruct (x =? m) eqn:Exm; [contradiction|]. apply Nat.eqb_neq in Exm.
    destruct (f x) eqn:Fx.
    - destruct e1 as [|y e1]; simpl in E; inversion E; subst; [congruence|].
      destruct B as [->|B]; [left; reflexivity | right; eapply IH; eauto].
    - destruct B as [->|B]; [congruence | eapply IH; eauto].
  Qed.

  Definition invB (s : sstate) : Prop :=
    match s with (ai, todo, result) =>
      topo result /\
      (forall it, ai = Some it -> exists m0 rest, i_members it = m0 :: rest /\
                                   forall r, In r (requires cfg its m0) -> In r result)
    end.

  Lemma own_in_requires : forall a r, In r (own_requires cfg a) -> In r (requires cfg its a).
  Proof. intros. unfold requires. apply in_app_iff. left. assumption. Qed.

  Lemma topo_snoc : forall result a, topo result ->
    (forall r, In r (requires cfg its a) -> In r result) -> topo (result ++ [a]).
  Proof.
    intros result a T H. apply topo_app; auto. intros l1 x l2 E r Hr.
    destruct l1 as [|y l1]; simpl in E.
    - inversion E; subst. rewrite app_nil_r. apply H. apply own_in_requires. exact Hr.
    - inversion E. destruct l1; discriminate.
  Qed.

  Lemma invAB_move : members_nodup -> iter_closedb cfg its = true ->
    forall s s', invA s /\ invB s -> move s s' -> invA s' /\ invB s'.
  Proof.
    intros MN CL s s' [IA IB] M. split; [eapply invA_move; eauto|].
    inversion M; subst; destruct IB as [T B].
    - split; [apply topo_snoc; auto | intros; discriminate].
    - split; [apply topo_snoc; auto |].
      intros it' E. destruct (existsb _ _); inversion E; subst it'.
      unfold is_ataman in H1. rewrite H0 in H1. destruct (i_members it) as [|m0 rest] eqn:Em; [discriminate|].
      apply Nat.eqb_eq in H1. subst m0. exists a, rest. split; auto.
      intros r Hr. apply in_app_iff. left. auto.
    - split; [|intros; discriminate].
      destruct IA as [I1 [I2 [I3 [I4 I5]]]]. specialize (I5 it eq_refl).
      destruct (B it eq_refl) as [m0 [rest [Em Hm0]]].
      apply topo_app; auto. intros e1 m e2 E r Hr.
      assert (Hm : In m (elig_of it todo)) by (rewrite E; apply in_app_iff; right; left; reflexivity).
      unfold elig_of in Hm. apply filter_In in Hm. destruct Hm as [Hm1 Hm2]. apply mem_In in Hm2.
      assert (Hact : In m (names cfg)) by (apply I1; auto).
      destruct (iter_closed_spec CL it m0 rest I5 Em m Hm1 Hact r Hr) as [C|[C1 C2]].
      + apply in_app_iff. left. auto.
      + apply I1 in C2. apply in_app_iff. destruct C2 as [C2|C2]; [left; exact C2 | right].
        eapply filter_before; eauto. apply mem_In. exact C2.
  Qed.

  Definition sorted_from_names := sort_loop cfg its (sort_fuel cfg) None [] (sort_names (names cfg)) [].

  Lemma sort_actions_moves : forall l, wfb cfg its = true -> sort_actions cfg its = Ok l ->
    exists ai', moves (None, sort_names (names cfg), []) (ai', [], l).
  Proof.
    unfold sort_actions. intros l W H. destruct (understand_ok its); [|discriminate].
    eapply sort_loop_moves; eauto; [tauto|].
    eapply Permutation_NoDup; [apply Permutation_sym, sort_names_perm | apply wfb_names; auto].
  Qed.

  Theorem sort_perm : forall l, wfb cfg its = true -> sort_actions cfg its = Ok l ->
    Permutation l (names cfg).
  Proof.
    intros l W H. destruct (sort_actions_moves l W H) as [ai' M].
    assert (I : invA (ai', [], l)).
    { eapply (moves_inv invA); [intros; eapply invA_move; eauto; apply wfb_members_nodup; auto | exact M |].
      apply invA_init. apply wfb_names; auto. }
    destruct I as [I1 [_ [I3 _]]]. apply NoDup_Permutation; auto; [apply wfb_names; auto|].
    intros x. rewrite I1. simpl. tauto.
  Qed.

  Theorem sort_topological : forall l, wfb cfg its = true -> iter_closedb cfg its = true ->
    sort_actions cfg its = Ok l -> topo l.
  Proof.
    intros l W CL H. destruct (sort_actions_moves l W H) as [ai' M].
    assert (I : invA (ai', [], l) /\ invB (ai', [], l)).
    { eapply (moves_inv (fun s => invA s /\ invB s));
        [intros; eapply invAB_move; eauto; apply wfb_members_nodup; auto | exact M |].
      split; [apply invA_init; apply wfb_names; auto|]. split.
      - intros l1 x l2 E. destruct l1; discriminate.
      - intros; discriminate. }
    destruct I as [_ [T _]]. exact T.
  Qed.

  (* ---- the fuel of sort_actions is sufficient: OutOfFuel is never returned *)
  Lemma filter_length_le : forall (f : nat -> bool) l, length (filter f l) <= length l.
  Proof. induction l; simpl; auto. destruct (f a); simpl; lia. Qed.

  Lemma pass_length : forall elig complete todo result c' t' r' ai',
    pass cfg its elig complete todo result = (c', t', r', ai') -> length t' <= length todo.
  Proof.
    induction elig as [|a rest IH]; simpl; intros complete todo result c' t' r' ai' H.
    - inversion H; subst. auto.
    - destruct (subset _ _).
      + destruct (iter_of its a).
        * inversion H; subst. apply filter_length_le.
        * apply IH in H. etransitivity; [exact H | apply filter_length_le].
      + eapply IH; eauto.
  Qed.

  Lemma sort_loop_fuel : forall fuel ai complete todo result,
    2 * length todo + (match ai with Some _ => 1 | None => 0 end) < fuel ->
    sort_loop cfg its fuel ai complete todo result <> OutOfFuel.
  Proof.
    induction fuel as [|f IH]; intros ai complete todo result Hf; [lia|]. simpl.
    destruct todo as [|t0 todo']; [discriminate|]. remember (t0 :: todo') as todo.
    destruct ai as [it|].
    - apply IH.
      assert (H : length (remove_all (filter (fun m => mem m todo) (i_members it)) todo) <= length todo)
        by apply filter_length_le.
      unfold name in *. lia.
    - destruct (pass cfg its (filter (is_ataman its) todo) complete todo result) as [[[c' t'] r'] ai'] eqn:Hp.
      apply pass_length in Hp. destruct (length t' =? length todo) eqn:E; [discriminate|].
      apply Nat.eqb_neq in E. apply IH. unfold name in *. destruct ai'; lia.
  Qed.

  Theorem sort_terminates : sort_actions cfg its <> OutOfFuel.
  Proof.
    unfold sort_actions. destruct (understand_ok its); [|discriminate].
    apply sort_loop_fuel. unfold sort_fuel.
    pose proof (Permutation_length (sort_names_perm (names cfg))) as HL.
    unfold names in *. rewrite map_length in HL. unfold name in *. simpl. lia.
  Qed.
End SortProofs.

(* The statement of sort_topological is false without iter_closedb: the loop admits a whole iteration block
   after checking only its first member (DESIGN section 9 item 7).  Names: A=0 B=1 C=2 Z=3, iteration [A;B] x 2,
   B requires C. *)
Definition refute_cfg : list action := [mkA 0 []; mkA 1 [2]; mkA 2 []; mkA 3 []].
Definition refute_its : list iteration := [mkI 0 [0; 1] 2 None false].

Theorem sort_topological_refuted :
  exists cfg its l, wfb cfg its = true /\ sort_actions cfg its = Ok l /\ ~ topo cfg l /\
    trace (run its (fun _ _ => false) (run_bound its l) (init l)) = [0; 1; 0; 1; 2; 3].
Proof.
  exists refute_cfg, refute_its, [0; 1; 2; 3]. repeat split; try (vm_compute; reflexivity).
  intros T. specialize (T [0] 1 [2; 3] eq_refl 2). simpl in T.
  destruct T as [E|[]]; [left; reflexivity | discriminate].
Qed.

(* ------------------------------------------------------------------ Part 2: Run *)
Section RunProofs.
  Variable its : list iteration.
  Variable raised : list name -> signal -> bool.

  Notation step := (step its raised).
  Notation run := (run its raised).

  Lemma insert_split : forall it a l, exists l1 l2, l = l1 ++ l2 /\ insert_after_run its it a l = l1 ++ a :: l2.
  Proof.
    induction l as [|x l IH]; simpl.
    - exists [], []. auto.
    - destruct (same_iter its it x).
      + destruct IH as [l1 [l2 [E1 E2]]]. exists (x :: l1), l2. simpl. rewrite E2. subst. auto.
      + exists [], (x :: l). auto.
  Qed.

  Lemma count_app : forall a l1 l2, count a (l1 ++ l2) = count a l1 + count a l2.
  Proof. induction l1; simpl; intros; auto. rewrite IHl1. lia. Qed.

  Lemma count_In : forall a l, In a l <-> 1 <= count a l.
  Proof.
    induction l; simpl; [split; [tauto | lia]|].
    destruct (a0 =? a) eqn:E.
    - apply Nat.eqb_eq in E. split; [lia | auto].
    - apply Nat.eqb_neq in E. rewrite IHl. simpl. split; [intros [?|?]; [congruence | lia] | auto].
  Qed.

  Lemma count_NoDup : forall a l, NoDup l -> In a l -> count a l = 1.
  Proof.
    induction l; simpl; intros N H; [contradiction|]. inversion N; subst.
    destruct (a0 =? a) eqn:E.
    - apply Nat.eqb_eq in E. subst. assert (count a l = 0); [|lia].
      destruct (count a l) eqn:C; auto. exfalso. apply H2. apply count_In. lia.
    - apply Nat.eqb_neq in E. destruct H; [congruence|]. simpl. auto.
  Qed.

  (* ---- termination: the measure "runs still owed by the queue" decreases at every step *)
  Definition remaining (c : name -> nat) (a : name) : nat :=
    match iter_of its a with None => 1 | Some it => Nat.max (i_reps it - c a) 1 end.
  Definition mu (s : st) : nat := list_sum (map (remaining (cnt s)) (q s)).

  Lemma list_sum_le : forall (f g : name -> nat) l, (forall x, f x <= g x) ->
    list_sum (map f l) <= list_sum (map g l).
  Proof. induction l; simpl; intros; auto. specialize (H a) as Ha. specialize (IHl H). lia. Qed.

  Lemma remaining_pos : forall c a, 1 <= remaining c a.
  Proof. intros. unfold remaining. destruct (iter_of its a); lia. Qed.

  Lemma remaining_upd : forall c a v x, c a <= v -> remaining (upd c a v) x <= remaining c x.
  Proof.
    intros. unfold remaining, upd. destruct (iter_of its x); auto. destruct (x =? a) eqn:E; auto.
    apply Nat.eqb_eq in E. subst. lia.
  Qed.

  Lemma step_mu : forall s s', step s = Some s' ->
    mu s' < mu s /\ length (trace s') = S (length (trace s)).
  Proof.
    intros s s' H. unfold Concertina.step in H. unfold mu. destruct (q s) as [|a q'] eqn:Eq; [discriminate|].
    simpl. pose proof (remaining_pos (cnt s) a) as Hp.
    destruct (iter_of its a) as [it|] eqn:Hit.
    - assert (Hle : list_sum (map (remaining (upd (cnt s) a (S (cnt s a)))) q') <= list_sum (map (remaining (cnt s)) q')).
      { apply list_sum_le. intros x. apply remaining_upd. lia. }
      destruct (i_reps it <=? S (cnt s a)) eqn:Er.
      + inversion H; subst; simpl. rewrite app_length. simpl. lia.
      + apply Nat.leb_gt in Er. destruct (poll raised (wrench s) (trace s ++ [a]) (i_stop it)) as [[|] w'].
        * inversion H; subst; simpl. rewrite app_length. simpl. lia.
        * inversion H; subst; simpl. rewrite app_length. simpl. split; [|lia].
          destruct (insert_split it a q') as [l1 [l2 [E1 E2]]]. rewrite E2. subst q'.
          rewrite !map_app, !list_sum_app in *. simpl.
          assert (remaining (upd (cnt s) a (S (cnt s a))) a < remaining (cnt s) a); [|lia].
          unfold remaining. rewrite Hit. unfold upd. rewrite Nat.eqb_refl. lia.
    - inversion H; subst; simpl. rewrite app_length. simpl. lia.
  Qed.

  Lemma run_terminates_mu : forall fuel s, mu s <= fuel ->
    q (run fuel s) = [] /\ length (trace (run fuel s)) <= length (trace s) + mu s.
  Proof.
    induction fuel as [|f IH]; intros s Hm; simpl.
    - split; [|lia]. unfold mu in Hm. destruct (q s) as [|a q']; auto. simpl in Hm.
      pose proof (remaining_pos (cnt s) a). lia.
    - destruct (step s) as [s'|] eqn:E.
      + destruct (step_mu s s' E) as [H1 H2]. destruct (IH s') as [A B]; [lia|]. split; auto. lia.
      + split; [|lia]. unfold Concertina.step in E. destruct (q s); auto.
        destruct (iter_of its n); [|discriminate].
        destruct (i_reps i <=? S (cnt s n)); [discriminate|]. destruct (poll _ _ _ _) as [[|] ?]; discriminate.
  Qed.

  Lemma mu_init : forall l, mu (init l) = run_bound its l.
  Proof.
    intros. unfold mu, run_bound, init. simpl. f_equal. apply map_ext. intros a.
    unfold remaining, weight. destruct (iter_of its a); auto. rewrite Nat.sub_0_r. reflexivity.
  Qed.

  Theorem run_terminates : forall l fuel, run_bound its l <= fuel ->
    q (run fuel (init l)) = [] /\ length (trace (run fuel (init l))) <= run_bound its l.
  Proof.
    intros l fuel H. rewrite <- mu_init in *. destruct (run_terminates_mu fuel (init l) H). split; auto.
  Qed.

  (* ---- one step, by cases *)
  Definition polled (s : st) (a : name) (it : iteration) := poll raised (wrench s) (trace s ++ [a]) (i_stop it).

  Lemma step_cases : forall s s', step s = Some s' ->
    exists a q', q s = a :: q' /\ trace s' = trace s ++ [a] /\
      ((iter_of its a = None /\ q s' = q' /\ cnt s' = cnt s /\ wrench s' = wrench s) \/
       (exists it, iter_of its a = Some it /\ cnt s' = upd (cnt s) a (S (cnt s a)) /\
          ((q s' = q' /\ i_reps it <= S (cnt s a) /\ wrench s' = wrench s) \/
           (q s' = q' /\ S (cnt s a) < i_reps it /\ fst (polled s a it) = true /\ wrench s' = snd (polled s a it)) \/
           (q s' = insert_after_run its it a q' /\ S (cnt s a) < i_reps it /\ fst (polled s a it) = false
            /\ wrench s' = snd (polled s a it))))).
  Proof.
    intros s s' H. unfold Concertina.step in H. destruct (q s) as [|a q'] eqn:Eq; [discriminate|].
    exists a, q'. split; auto. destruct (iter_of its a) as [it|] eqn:Hit.
    - destruct (i_reps it <=? S (cnt s a)) eqn:Er.
      + apply Nat.leb_le in Er. inversion H; subst; simpl. split; auto. right. exists it. repeat split; auto.
      + apply Nat.leb_gt in Er. unfold polled.
        destruct (poll raised (wrench s) (trace s ++ [a]) (i_stop it)) as [[|] w'] eqn:Ep;
          inversion H; subst; simpl; (split; auto); right; exists it; (split; auto); (split; auto).
        * right. left. rewrite Ep. simpl. auto.
        * right. right. rewrite Ep. simpl. auto.
    - inversion H; subst; simpl. split; auto.
  Qed.

  Lemma In_insert : forall it a l x, In x (insert_after_run its it a l) <-> x = a \/ In x l.
  Proof.
    intros. destruct (insert_split it a l) as [l1 [l2 [E1 E2]]]. rewrite E2. subst.
    rewrite !in_app_iff. simpl. intuition.
  Qed.

  Lemma NoDup_insert : forall it a l, ~ In a l -> NoDup l -> NoDup (insert_after_run its it a l).
  Proof.
    intros. destruct (insert_split it a l) as [l1 [l2 [E1 E2]]]. rewrite E2. subst.
    apply NoDup_Add with (a := a) (l := l1 ++ l2); auto. apply Add_app.
  Qed.

  Lemma count_insert : forall it a l x, count x (insert_after_run its it a l) = (if a =? x then 1 else 0) + count x l.
  Proof.
    intros. destruct (insert_split it a l) as [l1 [l2 [E1 E2]]]. rewrite E2. subst.
    rewrite !count_app. simpl. lia.
  Qed.

  (* ---- invariant K: bookkeeping of queue, counters and trace, relative to the initial queue l0 *)
  Variable l0 : list name.

  Definition invK (s : st) : Prop :=
    NoDup (q s) /\
    (forall a, iter_of its a = None -> count a (trace s) + count a (q s) = count a l0) /\
    (forall a it, iter_of its a = Some it ->
        cnt s a = count a (trace s) /\ (In a (q s) -> cnt s a = 0 \/ cnt s a < i_reps it) /\
        cnt s a <= Nat.max (i_reps it) 1) /\
    (forall a, In a l0 <-> In a (q s) \/ In a (trace s)).

  Lemma invK_init : NoDup l0 -> invK (init l0).
  Proof.
    intros N. unfold invK, init; simpl. repeat split; auto; try lia; tauto.
  Qed.

  Lemma invK_step : forall s s', invK s -> step s = Some s' -> invK s'.
  Proof.
    intros s s' [K1 [K2 [K3 K4]]] H. apply step_cases in H.
    destruct H as [a [q' [Eq [Et C]]]]. rewrite Eq in *. inversion K1 as [|? ? Ha Hq']; subst.
    assert (Hcnt : forall x, count x (trace s ++ [a]) = count x (trace s) + (if a =? x then 1 else 0)).
    { intros x. rewrite count_app. simpl. lia. }
    destruct C as [[Hit [Eq' [Ec Ew]]]|[it [Hit [Ec C]]]].
    - (* not iterated *)
      unfold invK. rewrite Et, Eq', Ec. repeat split.
      + exact Hq'.
      + intros x Hx. rewrite Hcnt. specialize (K2 x Hx). simpl in K2. destruct (a =? x); lia.
      + destruct (K3 a0 it H) as [A [B C]]. rewrite Hcnt.
        destruct (a =? a0) eqn:E; [apply Nat.eqb_eq in E; subst; congruence | lia].
      + intros Hx. destruct (K3 a0 it H) as [A [B C]]. apply B. right. exact Hx.
      + destruct (K3 a0 it H) as [A [B C]]. exact C.
      + intros Hx. apply K4 in Hx. rewrite in_app_iff. simpl in *. intuition.
      + intros Hx. apply K4. rewrite in_app_iff in Hx. simpl in *. intuition.
    - (* iterated *)
      destruct (K3 a it Hit) as [A0 [B0 C0]]. specialize (B0 (or_introl eq_refl)).
      assert (Hq : q s' = q' \/ (q s' = insert_after_run its it a q' /\ S (cnt s a) < i_reps it)).
      { destruct C as [[? ?]|[[? ?]|[? [? ?]]]]; auto. }
      assert (HIn : forall x, In x (q s') -> x = a \/ In x q').
      { intros x Hx. destruct Hq as [E|[E _]]; rewrite E in Hx; auto. apply In_insert in Hx. exact Hx. }
      unfold invK. rewrite Et, Ec. repeat split.
      + destruct Hq as [E|[E _]]; rewrite E; auto. apply NoDup_insert; auto.
      + intros x Hx. rewrite Hcnt. specialize (K2 x Hx). simpl in K2.
        assert (a =? x = false) by (apply Nat.eqb_neq; intros ->; congruence).
        rewrite H in *. destruct Hq as [E|[E _]]; rewrite E; [lia|]. rewrite count_insert. rewrite H. lia.
      + destruct (K3 a0 it0 H) as [A [B C']]. rewrite Hcnt. unfold upd. rewrite (Nat.eqb_sym a0 a).
        destruct (a =? a0) eqn:E; [apply Nat.eqb_eq in E; subst a0; lia | lia].
      + intros Hx. unfold upd. destruct (a0 =? a) eqn:E.
        * apply Nat.eqb_eq in E. subst a0. assert (it0 = it) by congruence. subst it0. right.
          destruct Hq as [E|[E L]]; [|exact L]. rewrite E in Hx. contradiction.
        * apply Nat.eqb_neq in E. destruct (K3 a0 it0 H) as [A [B C']]. apply B.
          apply HIn in Hx. destruct Hx; [contradiction | right; assumption].
      + unfold upd. destruct (a0 =? a) eqn:E.
        * apply Nat.eqb_eq in E. subst a0. assert (it0 = it) by congruence. subst it0. lia.
        * destruct (K3 a0 it0 H) as [A [B C']]. exact C'.
      + intros Hx. apply K4 in Hx. rewrite in_app_iff. simpl in *.
        destruct Hx as [[->|Hx]|Hx]; [right; right; auto | | auto].
        left. destruct Hq as [E|[E _]]; rewrite E; auto. apply In_insert. auto.
      + intros Hx. apply K4. rewrite in_app_iff in Hx. simpl in *.
        destruct Hx as [Hx|[Hx|[->|[]]]]; auto. apply HIn in Hx. destruct Hx; [subst|]; auto.
  Qed.

  Lemma invK_run : forall fuel s, invK s -> invK (run fuel s).
  Proof.
    induction fuel; simpl; intros s K; auto. destruct (step s) eqn:E; auto. apply IHfuel. eapply invK_step; eauto.
  Qed.

  (* (a) every non-iterated action exactly once *)
  Theorem run_once : forall fuel a, NoDup l0 -> run_bound its l0 <= fuel -> In a l0 -> iter_of its a = None ->
    count a (trace (run fuel (init l0))) = 1.
  Proof.
    intros fuel a N F Ha Hit. destruct (run_terminates l0 fuel F) as [Q _].
    destruct (invK_run fuel _ (invK_init N)) as [_ [K2 _]]. specialize (K2 a Hit). rewrite Q in K2. simpl in K2.
    rewrite (count_NoDup a l0 N Ha) in K2. lia.
  Qed.

  Theorem run_covers : forall fuel a, NoDup l0 -> run_bound its l0 <= fuel ->
    (In a l0 <-> In a (trace (run fuel (init l0)))).
  Proof.
    intros fuel a N F. destruct (run_terminates l0 fuel F) as [Q _].
    destruct (invK_run fuel _ (invK_init N)) as [_ [_ [_ K4]]]. rewrite K4, Q. simpl. tauto.
  Qed.

  (* (b) an iterated action runs at least once and at most max(reps, 1) times, whatever the oracle *)
  Theorem run_counts : forall fuel a it, NoDup l0 -> run_bound its l0 <= fuel -> In a l0 -> iter_of its a = Some it ->
    1 <= count a (trace (run fuel (init l0))) <= Nat.max (i_reps it) 1.
  Proof.
    intros fuel a it N F Ha Hit. destruct (run_terminates l0 fuel F) as [Q _].
    destruct (invK_run fuel _ (invK_init N)) as [_ [_ [K3 K4]]]. destruct (K3 a it Hit) as [A [_ C]].
    apply K4 in Ha. rewrite Q in Ha. destruct Ha as [[]|Ha]. apply count_In in Ha. lia.
  Qed.

  (* ---- exactly max(reps,1) runs when the iteration has no stop signal or its signal is never raised *)
  Definition quiet (it : iteration) : Prop :=
    match i_stop it with None => True | Some sg => forall tr, raised tr sg = false end.

  Definition invQ (s : st) : Prop :=
    (forall sg, In sg (wrench s) -> exists tr, raised tr sg = true) /\
    (forall a it, iter_of its a = Some it -> quiet it -> In a l0 -> In a (q s) \/ i_reps it <= cnt s a).

  Lemma poll_wrench : forall w tr o, (forall sg, In sg w -> exists tr, raised tr sg = true) ->
    forall sg, In sg (snd (poll raised w tr o)) -> exists tr, raised tr sg = true.
  Proof.
    intros w tr o H sg. unfold poll. destruct o as [s0|]; simpl; auto.
    destruct (mem s0 w); simpl; auto. destruct (raised tr s0) eqn:E; simpl; auto.
    intros [<-|Hs]; eauto.
  Qed.

  Lemma poll_quiet : forall w tr it, (forall sg, In sg w -> exists tr, raised tr sg = true) -> quiet it ->
    fst (poll raised w tr (i_stop it)) = false.
  Proof.
    intros w tr it H Q. unfold quiet in Q. unfold poll. destruct (i_stop it) as [s0|]; simpl; auto.
    destruct (mem s0 w) eqn:M.
    - apply mem_In in M. destruct (H s0 M) as [tr' E]. rewrite Q in E. discriminate.
    - rewrite Q. reflexivity.
  Qed.

  Lemma invQ_step : forall s s', invQ s -> step s = Some s' -> invQ s'.
  Proof.
    intros s s' [W Q] H. apply step_cases in H. destruct H as [a [q' [Eq [Et C]]]]. split.
    - destruct C as [[_ [_ [_ Ew]]]|[it [_ [_ [[_ [_ Ew]]|[[_ [_ [_ Ew]]]|[_ [_ [_ Ew]]]]]]]]];
        rewrite Ew; auto; apply poll_wrench; auto.
    - intros a0 it0 Hit0 Q0 Hl. specialize (Q a0 it0 Hit0 Q0 Hl). rewrite Eq in Q.
      destruct C as [[Hit [Eq' [Ec Ew]]]|[it [Hit [Ec C]]]].
      + rewrite Eq', Ec. destruct Q as [[->|Q]|Q]; auto. congruence.
      + rewrite Ec. unfold upd. destruct (a0 =? a) eqn:E.
        * apply Nat.eqb_eq in E. subst a0. assert (it0 = it) by congruence. subst it0.
          destruct C as [[_ [L _]]|[[_ [_ [P _]]]|[E' _]]].
          -- right. exact L.
          -- unfold polled in P. rewrite poll_quiet in P; auto. discriminate.
          -- left. rewrite E'. apply In_insert. auto.
        * apply Nat.eqb_neq in E. destruct Q as [[Q|Q]|Q]; [congruence | | right; exact Q].
          left. destruct C as [[-> _]|[[-> _]|[-> _]]]; auto. apply In_insert. auto.
  Qed.

  Lemma invQ_run : forall fuel s, invQ s -> invQ (run fuel s).
  Proof.
    induction fuel; simpl; intros s K; auto. destruct (step s) eqn:E; auto. apply IHfuel. eapply invQ_step; eauto.
  Qed.

  Theorem run_counts_quiet : forall fuel a it, NoDup l0 -> run_bound its l0 <= fuel -> In a l0 ->
    iter_of its a = Some it -> quiet it ->
    count a (trace (run fuel (init l0))) = Nat.max (i_reps it) 1.
  Proof.
    intros fuel a it N F Ha Hit Qt. destruct (run_counts fuel a it N F Ha Hit) as [L U].
    destruct (run_terminates l0 fuel F) as [Qe _].
    assert (I : invQ (init l0)) by (split; simpl; [intros ? [] | auto]).
    destruct (invQ_run fuel _ I) as [_ Q]. specialize (Q a it Hit Qt Ha). rewrite Qe in Q.
    destruct Q as [[]|Q]. destruct (invK_run fuel _ (invK_init N)) as [_ [_ [K3 _]]].
    destruct (K3 a it Hit) as [A _]. lia.
  Qed.

  (* ---- (c) dependency order *)
  Variable cfg : list action.

  Definition before_in (y x : name) (l : list name) : Prop := exists l1 l2, l = l1 ++ x :: l2 /\ In y l1.

  Lemma before_insert : forall it a y x l, before_in y x l -> before_in y x (insert_after_run its it a l).
  Proof.
    intros it a y x l [l1 [l2 [E Hy]]]. destruct (insert_split it a l) as [k1 [k2 [E1 E2]]]. rewrite E2.
    rewrite E in E1. apply app_eq_app in E1. destruct E1 as [m [[A B]|[A B]]].
    - subst. exists (k1 ++ a :: m), l2. rewrite <- app_assoc. simpl. split; auto.
      rewrite in_app_iff in *. simpl. tauto.
    - destruct m as [|z m]; simpl in B.
      + subst. exists (l1 ++ [a]), l2. rewrite app_nil_r, <- app_assoc. simpl. split; auto. apply in_app_iff. auto.
      + inversion B; subst. exists l1, (m ++ a :: k2). rewrite <- app_assoc. simpl. auto.
  Qed.

  Definition invD (s : st) : Prop :=
    (forall x y, before_in y x l0 -> In x (q s) -> ~ In x (trace s) -> In y (trace s) \/ before_in y x (q s)) /\
    topo cfg (trace s).

  Lemma invD_step : topo cfg l0 -> forall s s', invK s -> invD s -> step s = Some s' -> invD s'.
  Proof.
    intros T0 s s' [K1 [_ [_ K4]]] [D T] H. apply step_cases in H. destruct H as [a [q' [Eq [Et C]]]].
    rewrite Eq in *. inversion K1 as [|? ? Ha Hq']; subst.
    assert (Hq : q s' = q' \/ exists it, q s' = insert_after_run its it a q').
    { destruct C as [[_ [E _]]|[it [_ [_ [[E _]|[[E _]|[E _]]]]]]]; eauto. }
    split.
    - intros x y B Hx Hnx. rewrite Et in *. rewrite in_app_iff in Hnx. simpl in Hnx.
      assert (Hxa : x <> a) by (intros ->; tauto).
      assert (Hxq : In x q').
      { destruct Hq as [E|[it E]]; rewrite E in Hx; auto. apply In_insert in Hx. destruct Hx; [contradiction|auto]. }
      destruct (D x y B (or_intror Hxq)) as [Hy|[l1 [l2 [E Hy]]]]; [tauto | left; apply in_app_iff; auto |].
      destruct l1 as [|z l1]; [destruct Hy|]. simpl in E. inversion E; subst.
      destruct Hy as [->|Hy]; [left; apply in_app_iff; simpl; auto|].
      right. assert (B' : before_in y x (l1 ++ x :: l2)) by (exists l1, l2; auto).
      destruct Hq as [E'|[it E']]; rewrite E'; auto. apply before_insert. exact B'.
    - rewrite Et. apply topo_app; auto. intros l1 x l2 E r Hr.
      destruct l1 as [|z l1]; simpl in E; [|inversion E; destruct l1; discriminate].
      inversion E; subst x l2. rewrite app_nil_r.
      destruct (in_dec Nat.eq_dec a (trace s)) as [Hin|Hnin].
      + apply in_split in Hin. destruct Hin as [u1 [u2 Eu]]. specialize (T u1 a u2 Eu r Hr).
        rewrite Eu. apply in_app_iff. auto.
      + assert (Hl : In a l0) by (apply K4; left; left; reflexivity).
        apply in_split in Hl. destruct Hl as [m1 [m2 Em]]. specialize (T0 m1 a m2 Em r Hr).
        assert (B : before_in r a l0) by (exists m1, m2; auto).
        destruct (D a r B (or_introl eq_refl) Hnin) as [Hy|[k1 [k2 [Ek Hy]]]]; auto.
        destruct k1 as [|z k1]; [destruct Hy|]. simpl in Ek. inversion Ek; subst. exfalso. apply Ha.
        apply in_app_iff. right. left. reflexivity.
  Qed.

  Theorem run_deps : NoDup l0 -> topo cfg l0 -> forall fuel, topo cfg (trace (run fuel (init l0))).
  Proof.
    intros N T0 fuel.
    assert (G : forall fuel s, invK s -> invD s -> invD (run fuel s)).
    { induction fuel0; simpl; intros s K D; auto. destruct (step s) eqn:E; auto.
      apply IHfuel0; [eapply invK_step; eauto | eapply invD_step; eauto]. }
    destruct (G fuel (init l0)) as [_ T]; auto.
    - apply invK_init; auto.
    - split; simpl.
      + intros x y B _ _. right. exact B.
      + intros l1 x l2 E. destruct l1; discriminate.
  Qed.
End RunProofs.

(* ------------------------------------------------------------------ sort + run together *)
Theorem execute_correct : forall cfg its raised t,
  wfb cfg its = true -> iter_closedb cfg its = true -> execute cfg its raised = Some t ->
  (forall a, In a t <-> In a (names cfg)) /\
  (forall a, In a (names cfg) ->
     match iter_of its a with
     | None => count a t = 1
     | Some it => 1 <= count a t <= Nat.max (i_reps it) 1 /\ (quiet raised it -> count a t = Nat.max (i_reps it) 1)
     end) /\
  topo cfg t /\
  (exists l, Permutation l (names cfg) /\ length t <= run_bound its l).
Proof.
  intros cfg its raised t W CL E. unfold execute in E. destruct (sort_actions cfg its) as [l| |] eqn:S; try discriminate.
  inversion E; subst t; clear E.
  pose proof (sort_perm cfg its l W S) as P.
  assert (N : NoDup l) by (eapply Permutation_NoDup; [apply Permutation_sym; exact P | apply wfb_names with (its := its); auto]).
  assert (F : run_bound its l <= run_bound its l) by lia.
  repeat split.
  - intros H. eapply Permutation_in; [exact P|]. apply (run_covers its raised l _ a N F). exact H.
  - intros H. apply (run_covers its raised l _ a N F). eapply Permutation_in; [apply Permutation_sym; exact P | exact H].
  - intros a Ha. assert (Hl : In a l) by (eapply Permutation_in; [apply Permutation_sym; exact P | exact Ha]).
    destruct (iter_of its a) as [it|] eqn:Hit.
    + split; [apply run_counts; auto | intros Q; apply run_counts_quiet; auto].
    + apply run_once; auto.
  - apply run_deps; auto. apply (sort_topological cfg its l W CL S).
  - exists l. split; auto. apply run_terminates. lia.
Qed.
