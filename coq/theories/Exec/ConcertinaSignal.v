(* Exec/ConcertinaSignal.v — the stop signal: once seen, every member runs at most once more. *)
From Coq Require Import List Bool Arith Lia Permutation.
Import ListNotations.
From LV Require Import Exec.Concertina Exec.ConcertinaProofs.

(* ------------------------------------------------------------------ after the stop signal was seen *)
Section AfterSignal.
  Variable its : list iteration.
  Variable raised : list name -> signal -> bool.
  Notation step := (step its raised).
  Notation run := (run its raised).

  Variable a : name.
  Variable it : iteration.
  Variable sg : signal.
  Hypothesis Hit : iter_of its a = Some it.
  Hypothesis Hsg : i_stop it = Some sg.
  Variable c0 : nat.

  (* the signal has been seen (it is in wrench_in_gears); a has run c0 times if it is still queued *)
  Definition invS (s : st) : Prop :=
    In sg (wrench s) /\ NoDup (q s) /\
    (In a (q s) -> count a (trace s) = c0) /\ (~ In a (q s) -> count a (trace s) <= S c0).

  Lemma poll_keeps : forall w tr o x, In x w -> In x (snd (poll raised w tr o)).
  Proof.
    intros w tr o x H. unfold poll. destruct o as [s0|]; simpl; auto. destruct (mem s0 w); simpl; auto.
    destruct (raised tr s0); simpl; auto.
  Qed.

  Lemma poll_seen : forall w tr, In sg w -> fst (poll raised w tr (Some sg)) = true.
  Proof. intros w tr H. unfold poll. apply mem_In in H. rewrite H. reflexivity. Qed.

  Lemma invS_step : forall s s', invS s -> step s = Some s' -> invS s'.
  Proof.
    intros s s' [W [N [A B]]] H. apply step_cases in H. destruct H as [x [q' [Eq [Et C]]]].
    rewrite Eq in *. inversion N as [|? ? Nx Nq]; subst.
    assert (Hc : count a (trace s ++ [x]) = count a (trace s) + (if x =? a then 1 else 0)).
    { rewrite count_app. simpl. lia. }
    destruct C as [[Hn [Eq' [Ec Ew]]]|[it' [Hit' [Ec C]]]].
    - assert (x =? a = false) by (apply Nat.eqb_neq; intros ->; congruence).
      unfold invS. rewrite Ew, Eq', Et, Hc, H. rewrite Nat.add_0_r. repeat split; auto.
      + intros Ha. apply A. right. exact Ha.
      + intros Ha. apply B. intros [E|Ha']; [apply Nat.eqb_neq in H; congruence | contradiction].
    - assert (W' : In sg (wrench s')).
      { destruct C as [[_ [_ Ew]]|[[_ [_ [_ Ew]]]|[_ [_ [_ Ew]]]]]; rewrite Ew; auto; apply poll_keeps; auto. }
      destruct (Nat.eq_dec x a) as [->|Hne].
      + assert (it' = it) by congruence. subst it'.
        assert (Eq' : q s' = q').
        { destruct C as [[E _]|[[E _]|[_ [_ [P _]]]]]; auto. unfold polled in P. rewrite Hsg, poll_seen in P; auto. discriminate. }
        unfold invS. rewrite Eq', Et, Hc, Nat.eqb_refl. repeat split; auto.
        * intros Ha. contradiction.
        * intros _. rewrite A by (left; reflexivity). lia.
      + assert (Hx : x =? a = false) by (apply Nat.eqb_neq; auto).
        assert (HIn : In a (q s') <-> In a q').
        { destruct C as [[E _]|[[E _]|[E _]]]; rewrite E; try tauto. rewrite (In_insert its raised). split; [intros [E1|E1]; [congruence | auto] | auto]. }
        assert (N' : NoDup (q s')).
        { destruct C as [[E _]|[[E _]|[E _]]]; rewrite E; auto. apply NoDup_insert; auto. }
        unfold invS. rewrite Et, Hc, Hx, Nat.add_0_r. repeat split; auto.
        * intros Ha. apply A. right. apply HIn. exact Ha.
        * intros Ha. apply B. intros [E|Ha']; [congruence | apply Ha, HIn; exact Ha'].
  Qed.

  Lemma invS_run : forall fuel s, invS s -> invS (run fuel s).
  Proof.
    induction fuel; simpl; intros s K; auto. destruct (step s) eqn:E; auto. apply IHfuel. eapply invS_step; eauto.
  Qed.
End AfterSignal.

(* (b) once a poll has seen the stop signal (it is in wrench_in_gears), every member of an iteration
   with that signal runs at most once more — in any continuation of the run *)
Theorem run_after_signal : forall its raised l0 f1 f2 a it sg,
  NoDup l0 -> iter_of its a = Some it -> i_stop it = Some sg ->
  In sg (wrench (run its raised f1 (init l0))) ->
  count a (trace (run its raised f2 (run its raised f1 (init l0)))) <=
  S (count a (trace (run its raised f1 (init l0)))).
Proof.
  intros its raised l0 f1 f2 a it sg N Hit Hsg W.
  set (s1 := run its raised f1 (init l0)) in *.
  assert (K : invK its l0 s1) by (apply invK_run; apply invK_init; auto).
  destruct K as [K1 _].
  assert (I : invS a sg (count a (trace s1)) s1).
  { unfold invS. repeat split; auto. }
  pose proof (invS_run its raised a it sg Hit Hsg (count a (trace s1)) f2 s1 I) as [_ [_ [A B]]].
  destruct (in_dec Nat.eq_dec a (q (run its raised f2 s1))) as [Hin|Hnin]; [rewrite A; auto | apply B; auto].
Qed.

(* and a poll that finds the signal raised puts it there: after a step of an iterated action that has runs left,
   if the oracle says "raised" for the trace so far, the signal is in wrench_in_gears *)
Theorem poll_records : forall its raised s s' a q' it sg,
  step its raised s = Some s' -> q s = a :: q' -> iter_of its a = Some it -> i_stop it = Some sg ->
  S (cnt s a) < i_reps it -> raised (trace s ++ [a]) sg = true -> In sg (wrench s').
Proof.
  intros its raised s s' a q' it sg H Q Hit Hsg L R. unfold step in H. rewrite Q, Hit in H.
  apply Nat.leb_gt in L. rewrite L in H. rewrite Hsg in H. unfold poll in H.
  destruct (mem sg (wrench s)) eqn:M.
  - inversion H; subst; simpl. apply mem_In. exact M.
  - rewrite R in H. inversion H; subst; simpl. left. reflexivity.
Qed.

(* ------------------------------------------------------------------ fewer than reps runs only if the signal was seen *)
Section Unseen.
  Variable its : list iteration.
  Variable raised : list name -> signal -> bool.
  Variable l0 : list name.
  Notation step := (step its raised).
  Notation run := (run its raised).

  Definition invU (s : st) : Prop :=
    forall a it, iter_of its a = Some it -> In a l0 ->
      In a (q s) \/ i_reps it <= cnt s a \/ (exists sg, i_stop it = Some sg /\ In sg (wrench s)).

  Lemma poll_true : forall w tr o, fst (poll raised w tr o) = true ->
    exists sg, o = Some sg /\ In sg (snd (poll raised w tr o)).
  Proof.
    intros w tr o. unfold poll. destruct o as [s0|]; simpl; [|discriminate].
    destruct (mem s0 w) eqn:M; simpl.
    - intros _. exists s0. split; auto. apply mem_In. exact M.
    - destruct (raised tr s0); simpl; [|discriminate]. intros _. exists s0. split; auto.
  Qed.

  Lemma invU_step : forall s s', invU s -> step s = Some s' -> invU s'.
  Proof.
    intros s s' U H. apply step_cases in H. destruct H as [x [q' [Eq [Et C]]]].
    intros a it Hit Hl. specialize (U a it Hit Hl). rewrite Eq in U.
    assert (Wm : forall sg, In sg (wrench s) -> In sg (wrench s')).
    { intros sg Hs. destruct C as [[_ [_ [_ Ew]]]|[it' [_ [_ [[_ [_ Ew]]|[[_ [_ [_ Ew]]]|[_ [_ [_ Ew]]]]]]]]];
        rewrite Ew; auto; apply poll_keeps; auto. }
    destruct C as [[Hn [Eq' [Ec Ew]]]|[it' [Hit' [Ec C]]]].
    - rewrite Eq', Ec. destruct U as [[->|U]|[U|[sg [E1 E2]]]]; auto; [congruence|].
      right. right. exists sg. split; auto.
    - rewrite Ec. unfold upd. destruct (a =? x) eqn:E.
      + apply Nat.eqb_eq in E. subst x. assert (it' = it) by congruence. subst it'.
        destruct C as [[_ [L _]]|[[_ [_ [P Ew]]]|[E' _]]].
        * right. left. exact L.
        * right. right. unfold polled in P, Ew. apply poll_true in P. destruct P as [sg [E1 E2]].
          exists sg. split; auto. rewrite Ew. exact E2.
        * left. rewrite E'. apply (In_insert its raised). auto.
      + apply Nat.eqb_neq in E. destruct U as [[U|U]|[U|[sg [E1 E2]]]]; [congruence | | auto |].
        * left. destruct C as [[-> _]|[[-> _]|[-> _]]]; auto. apply (In_insert its raised). auto.
        * right. right. exists sg. split; auto.
  Qed.

  Lemma invU_run : forall fuel s, invU s -> invU (run fuel s).
  Proof.
    induction fuel; simpl; intros s K; auto. destruct (step s) eqn:E; auto. apply IHfuel. eapply invU_step; eauto.
  Qed.
End Unseen.

(* (b) an iterated action runs fewer than max(reps,1) times only if a poll has seen its stop signal *)
Theorem run_counts_unseen : forall its raised l0 fuel a it,
  NoDup l0 -> run_bound its l0 <= fuel -> In a l0 -> iter_of its a = Some it ->
  (forall sg, i_stop it = Some sg -> ~ In sg (wrench (run its raised fuel (init l0)))) ->
  count a (trace (run its raised fuel (init l0))) = Nat.max (i_reps it) 1.
Proof.
  intros its raised l0 fuel a it N F Ha Hit Hw.
  destruct (run_counts its raised l0 fuel a it N F Ha Hit) as [L U].
  destruct (run_terminates its raised l0 fuel F) as [Qe _].
  assert (I : invU its l0 (init l0)) by (intros x j _ Hx; left; exact Hx).
  pose proof (invU_run its raised l0 fuel _ I a it Hit Ha) as Q. rewrite Qe in Q.
  destruct Q as [[]|[Q|[sg [E1 E2]]]]; [|exfalso; eapply Hw; eauto].
  destruct (invK_run its raised l0 fuel _ (invK_init its raised l0 N)) as [_ [_ [K3 _]]].
  destruct (K3 a it Hit) as [A _]. lia.
Qed.
