(* Model for C17: @Ground — persistent tables written while compiling/running a predicate.

   Mirrors compiler/universe.py:
     SubqueryTranslator.TranslateTable / TranslateTableAttachedToFile   -> visit
       (memo = execution.table_to_defined_table_map, set BEFORE the dependencies are compiled;
        the export statement is appended AFTER them: execution.defines_and_exports)
     LogicaProgram.FormattedPredicateSql -> PredicateSql(main)          -> script
       (the requested predicate itself is compiled by PredicateSql, never by TranslateTable)
     export statement "DROP TABLE IF EXISTS t; CREATE TABLE t AS q"       -> [Drop t; CreateAs t]
     logica.py / sqlite3_logica.RunSqlScript                              -> exec
   Predicates are numbers; a non-grounded defined predicate is compiled in place (inlined, WITH or
   sub-query), i.e. its dependencies are visited where it is used.  No proofs here. *)
From Coq Require Import List Bool Arith.
Import ListNotations.

Definition pred := nat.

Section Program.
  Variable grounded : pred -> bool.        (* Annotations.Ground(p) is not None *)
  Variable deps : pred -> list pred.       (* predicates called by the rules of p, in order; [] if p has no rules *)

  Record state := mkState {
    memo : list pred;      (* keys of table_to_defined_table_map *)
    out : list pred;       (* grounded predicates in the order their export statement was appended *)
    ok : bool              (* false = the fuel of the model ran out (excluded by the theorems) *)
  }.

  Definition init : state := mkState [] [] true.
  Definition mem (p : pred) (l : list pred) : bool := existsb (Nat.eqb p) l.

  Fixpoint visit (fuel : nat) (d : pred) (st : state) : state :=
    match fuel with
    | 0 => mkState (memo st) (out st) false
    | S f =>
        if grounded d then
          if mem d (memo st) then st
          else
            let st1 := mkState (d :: memo st) (out st) (ok st) in
            let st2 := fold_left (fun s x => visit f x s) (deps d) st1 in
            mkState (memo st2) (out st2 ++ [d]) (ok st2)
        else fold_left (fun s x => visit f x s) (deps d) st
    end.

  (* compiling the requested predicate: PredicateSql(main) visits its tables *)
  Definition compile (fuel : nat) (main : pred) : state :=
    fold_left (fun s x => visit fuel x s) (deps main) init.

  Definition script (fuel : nat) (main : pred) : list pred := out (compile fuel main).
End Program.

(* ---- execution against a persistent store ---- *)
Section Exec.
  Variable B : Type.                                 (* bags of rows *)
  Definition store := pred -> option B.              (* None = no such table in the file *)
  Variable eval_q : pred -> store -> B.              (* value of the query compiled for p on a store *)

  Inductive stmt := Drop (t : pred) | CreateAs (t : pred).

  Definition upd (s : store) (t : pred) (v : option B) : store :=
    fun x => if Nat.eqb x t then v else s x.

  Definition exec1 (s : store) (c : stmt) : option store :=
    match c with
    | Drop t => Some (upd s t None)                     (* DROP TABLE IF EXISTS *)
    | CreateAs t =>
        match s t with
        | None => Some (upd s t (Some (eval_q t s)))    (* CREATE TABLE t AS q *)
        | Some _ => None                                (* "table t already exists" *)
        end
    end.

  Fixpoint exec (cs : list stmt) (s : store) : option store :=
    match cs with
    | [] => Some s
    | c :: tl => match exec1 s c with Some s' => exec tl s' | None => None end
    end.

  Definition stmts_of (l : list pred) : list stmt := flat_map (fun d => [Drop d; CreateAs d]) l.

  (* one run of predicate `main`: the script, then the SELECT of main on the resulting store *)
  Definition run_script (l : list pred) (s : store) : option store := exec (stmts_of l) s.
  Definition result (main : pred) (s : store) : B := eval_q main s.
End Exec.

(* ---- executable instance used by the harness: program given as tables ---- *)
Definition tbl_grounded (g : list bool) (p : pred) : bool := nth p g false.
Definition tbl_deps (d : list (list pred)) (p : pred) : list pred := nth p d [].
Definition script_of (g : list bool) (d : list (list pred)) (main : pred) : list pred * bool :=
  let st := compile (tbl_grounded g) (tbl_deps d) (S (length d)) main in (out st, ok st).
