(* Proofs about the ORDER BY / LIMIT oracle (Exec/OrderLimit.v). *)
From Coq Require Import List Bool ZArith Arith Lia Permutation Sorted.
Import ListNotations.
From LV Require Import Exec.OrderLimit.

Section Abstract.
  Variable row : Type.
  Variable leb : row -> row -> bool.
  Hypothesis leb_total : forall a b, leb a b = true \/ leb b a = true.
  Hypothesis leb_trans : forall a b c, leb a b = true -> leb b c = true -> leb a c = true.

  Definition le (a b : row) : Prop := leb a b = true.

  Lemma insert_perm : forall x l, Permutation (insert leb x l) (x :: l).
  Proof.
    induction l as [|y tl IH]; simpl; auto.
    destruct (leb x y); auto.
    rewrite IH. apply perm_swap.
  Qed.

  Theorem sort_perm : forall l, Permutation (sort leb l) l.
  Proof.
    induction l as [|x tl IH]; simpl; auto.
    rewrite insert_perm. auto.
  Qed.

  Lemma insert_sorted : forall x l, StronglySorted le l -> StronglySorted le (insert leb x l).
  Proof.
    induction l as [|y tl IH]; simpl; intros Hs.
    - constructor; constructor.
    - destruct (leb x y) eqn:E.
      + constructor; auto. constructor; auto.
        inversion Hs; subst. eapply Forall_impl; [|eassumption].
        intros z Hz. unfold le in *. eapply leb_trans; eauto.
      + inversion Hs; subst. constructor; auto.
        assert (Hyx : leb y x = true) by (destruct (leb_total x y); congruence).
        eapply Permutation_Forall; [symmetry; apply insert_perm|].
        constructor; auto.
  Qed.

  Theorem sort_sorted : forall l, StronglySorted le (sort leb l).
  Proof.
    induction l; simpl. constructor. apply insert_sorted; auto.
  Qed.

  Lemma firstn_sorted : forall k l, StronglySorted le l -> StronglySorted le (firstn k l).
  Proof.
    induction k; intros l Hs; simpl. constructor.
    destruct l. constructor. inversion Hs; subst. constructor; auto.
    clear - H2. revert k. induction H2; intros k; destruct k; simpl; constructor; auto.
  Qed.

  (* the result is sorted *)
  Theorem order_limit_sorted : forall lim l, StronglySorted le (order_limit leb lim l).
  Proof.
    intros [k|] l; simpl. apply firstn_sorted, sort_sorted. apply sort_sorted.
  Qed.

  Theorem order_limit_length : forall k l, length (order_limit leb (Some k) l) = Nat.min k (length l).
  Proof.
    intros. simpl. rewrite firstn_length. erewrite Permutation_length; [reflexivity|apply sort_perm].
  Qed.

  Theorem order_limit_none_perm : forall l, Permutation (order_limit leb None l) l.
  Proof. intros. apply sort_perm. Qed.

  Lemma in_skipn : forall k (l : list row) y, In y (skipn k l) -> In y l.
  Proof.
    induction k; intros l y H; simpl in *; auto. destruct l; simpl in *; auto.
  Qed.

  Lemma sorted_split : forall k l, StronglySorted le l ->
    forall x y, In x (firstn k l) -> In y (skipn k l) -> le x y.
  Proof.
    induction k; intros l Hs x y Hx Hy; simpl in *. contradiction.
    destruct l; simpl in *. contradiction.
    inversion Hs; subst. destruct Hx as [->|Hx].
    - rewrite Forall_forall in H2. apply H2. eapply in_skipn; eauto.
    - eapply IHk; eauto.
  Qed.

  (* the result is the k smallest rows: the input splits into result ++ rest with every kept row
     below every dropped row *)
  Theorem order_limit_k_smallest : forall k l,
    exists rest, Permutation l (order_limit leb (Some k) l ++ rest) /\
                 forall x y, In x (order_limit leb (Some k) l) -> In y rest -> le x y.
  Proof.
    intros k l. exists (skipn k (sort leb l)). split.
    - simpl. rewrite firstn_skipn. symmetry. apply sort_perm.
    - intros x y. simpl. apply sorted_split. apply sort_sorted.
  Qed.

  (* determinism: under an order that is antisymmetric on the rows at hand (predicate P, e.g.
     "has n columns") a sorted list is determined by its multiset *)
  Variable P : row -> Prop.
  Hypothesis leb_antisym : forall a b, P a -> P b -> leb a b = true -> leb b a = true -> a = b.

  Lemma sorted_perm_unique : forall l1 l2, Forall P l1 ->
    StronglySorted le l1 -> StronglySorted le l2 -> Permutation l1 l2 -> l1 = l2.
  Proof.
    induction l1 as [|a l1 IH]; intros l2 HP H1 H2 Pm.
    - apply Permutation_nil in Pm. auto.
    - destruct l2 as [|b l2]. apply Permutation_sym, Permutation_nil in Pm. discriminate.
      assert (HP2 : Forall P (b :: l2)) by (eapply Permutation_Forall; eauto).
      inversion H1; subst. inversion H2; subst. inversion HP; subst. inversion HP2; subst.
      assert (a = b).
      { assert (Ia : In a (b :: l2)) by (eapply Permutation_in; eauto; left; auto).
        assert (Ib : In b (a :: l1)) by (eapply Permutation_in; [symmetry; eauto|left; auto]).
        destruct Ia as [->|Ia]; auto. destruct Ib as [->|Ib]; auto.
        rewrite Forall_forall in H4, H6. apply leb_antisym; auto; [apply H4|apply H6]; auto. }
      subst b. f_equal. apply IH; auto. eapply Permutation_cons_inv; eauto.
  Qed.

  Theorem sort_deterministic : forall l l', Forall P l -> Permutation l l' -> sort leb l = sort leb l'.
  Proof.
    intros. apply sorted_perm_unique; try apply sort_sorted.
    eapply Permutation_Forall; [symmetry; apply sort_perm|auto].
    rewrite !sort_perm. auto.
  Qed.

  (* arrival order of the rows does not matter *)
  Theorem order_limit_deterministic : forall lim l l', Forall P l ->
    Permutation l l' -> order_limit leb lim l = order_limit leb lim l'.
  Proof.
    intros [k|] l l' HP Pm; simpl; [f_equal|]; apply sort_deterministic; auto.
  Qed.

  (* any list that is sorted and a permutation of the input is the oracle's answer *)
  Theorem order_limit_unique : forall l r k, Forall P l ->
    StronglySorted le r -> Permutation r l -> firstn k r = order_limit leb (Some k) l.
  Proof.
    intros. simpl. f_equal. apply sorted_perm_unique; auto.
    eapply Permutation_Forall; [symmetry; eauto|auto]. apply sort_sorted.
    rewrite sort_perm. auto.
  Qed.
End Abstract.

(* ---- the lexicographic order given by ORDER BY keys ---- *)
Lemma lex_total : forall keys a b, lex_leb keys a b = true \/ lex_leb keys b a = true.
Proof.
  induction keys as [|[c d] tl IH]; intros; simpl; auto.
  rewrite (Z.eqb_sym (col c b) (col c a)).
  destruct (Z.eqb (col c a) (col c b)) eqn:E; auto.
  apply Z.eqb_neq in E. destruct d; rewrite !Z.ltb_lt; lia.
Qed.

Lemma lex_trans : forall keys a b c,
  lex_leb keys a b = true -> lex_leb keys b c = true -> lex_leb keys a c = true.
Proof.
  induction keys as [|[k d] tl IH]; intros a b c; simpl; auto.
  destruct (Z.eqb (col k a) (col k b)) eqn:E1.
  - apply Z.eqb_eq in E1. rewrite E1. destruct (Z.eqb (col k b) (col k c)); eauto.
  - destruct (Z.eqb (col k b) (col k c)) eqn:E2.
    + apply Z.eqb_eq in E2. rewrite <- E2, E1. auto.
    + apply Z.eqb_neq in E1. apply Z.eqb_neq in E2.
      destruct d; rewrite ?Z.ltb_lt; intros;
        (destruct (Z.eqb (col k a) (col k c)) eqn:E3;
         [apply Z.eqb_eq in E3; lia | apply Z.ltb_lt; lia]).
Qed.

Lemma lex_antisym_keys : forall keys a b,
  lex_leb keys a b = true -> lex_leb keys b a = true ->
  forall k, In k keys -> col (fst k) a = col (fst k) b.
Proof.
  induction keys as [|[c d] tl IH]; intros a b H1 H2 k Hk; simpl in *. contradiction.
  rewrite (Z.eqb_sym (col c b) (col c a)) in H2.
  destruct (Z.eqb (col c a) (col c b)) eqn:E.
  - destruct Hk as [<-|Hk]. apply Z.eqb_eq; auto. eauto.
  - exfalso. destruct d; rewrite Z.ltb_lt in *; lia.
Qed.

Lemma nth_ext_len : forall (a b : zrow) n, length a = n -> length b = n ->
  (forall c, c < n -> nth c a 0%Z = nth c b 0%Z) -> a = b.
Proof.
  intros a b n Ha Hb H. apply nth_ext with (d := 0%Z) (d' := 0%Z). congruence.
  intros. apply H. lia.
Qed.

(* when the keys mention every column, the order is antisymmetric on rows of that width:
   a total order on the rows *)
Lemma lex_antisym : forall keys n, covers keys n = true ->
  forall a b, length a = n -> length b = n ->
  lex_leb keys a b = true -> lex_leb keys b a = true -> a = b.
Proof.
  intros keys n Hc a b Ha Hb H1 H2. apply (nth_ext_len a b n); auto.
  intros c Hlt. unfold covers in Hc. rewrite forallb_forall in Hc.
  specialize (Hc c). rewrite in_seq in Hc. specialize (Hc ltac:(lia)).
  apply existsb_exists in Hc. destruct Hc as [k [Hk Hkc]]. apply Nat.eqb_eq in Hkc. subst c.
  apply (lex_antisym_keys keys a b H1 H2 k Hk).
Qed.

(* ---- the statements for ORDER BY keys LIMIT k over integer rows ---- *)
Definition lex_le (keys : list key) (a b : zrow) : Prop := lex_leb keys a b = true.
Definition width (n : nat) (r : zrow) : Prop := length r = n.

Theorem rows_sorted : forall keys lim rows,
  StronglySorted (lex_le keys) (order_limit_rows keys lim rows).
Proof. intros. apply order_limit_sorted. apply lex_total. apply lex_trans. Qed.

Theorem rows_length : forall keys k rows,
  length (order_limit_rows keys (Some k) rows) = Nat.min k (length rows).
Proof. intros. apply order_limit_length. Qed.

Theorem rows_k_smallest : forall keys k rows,
  exists rest, Permutation rows (order_limit_rows keys (Some k) rows ++ rest) /\
               forall x y, In x (order_limit_rows keys (Some k) rows) -> In y rest -> lex_le keys x y.
Proof. intros. apply order_limit_k_smallest. apply lex_total. apply lex_trans. Qed.

Theorem rows_no_limit_all : forall keys rows, Permutation (order_limit_rows keys None rows) rows.
Proof. intros. apply order_limit_none_perm. Qed.

Theorem rows_deterministic : forall keys n, covers keys n = true ->
  forall lim rows rows', Forall (width n) rows -> Permutation rows rows' ->
  order_limit_rows keys lim rows = order_limit_rows keys lim rows'.
Proof.
  intros keys n Hc lim rows rows' HP Pm.
  apply (order_limit_deterministic zrow (lex_leb keys) (lex_total keys) (lex_trans keys) (width n)); auto.
  intros a b Ha Hb. apply (lex_antisym keys n Hc); auto.
Qed.

Theorem rows_unique : forall keys n, covers keys n = true ->
  forall rows r k, Forall (width n) rows ->
  StronglySorted (lex_le keys) r -> Permutation r rows ->
  firstn k r = order_limit_rows keys (Some k) rows.
Proof.
  intros keys n Hc rows r k HP Hs Pm.
  apply (order_limit_unique zrow (lex_leb keys) (lex_total keys) (lex_trans keys) (width n)); auto.
  intros a b Ha Hb. apply (lex_antisym keys n Hc); auto.
Qed.

(* LIMIT only truncates: the first k rows of the unlimited result, and of the result under any larger limit.
   A reader of a limited predicate therefore sees a prefix of what the same predicate holds with a larger or
   no limit, in the same order. *)
Theorem rows_limit_is_prefix : forall keys k rows,
  order_limit_rows keys (Some k) rows = firstn k (order_limit_rows keys None rows).
Proof. reflexivity. Qed.

Theorem rows_limit_monotone : forall keys k k' rows, k <= k' ->
  order_limit_rows keys (Some k) rows = firstn k (order_limit_rows keys (Some k') rows).
Proof.
  intros keys k k' rows H. unfold order_limit_rows, order_limit.
  rewrite firstn_firstn. rewrite (Nat.min_l k k' H). reflexivity.
Qed.
