(* Exec/ConcertinaRounds.v — iteration blocks: SortActions keeps the members of an iteration contiguous and in
   declared order (sort_contiguous); Run executes a block round by round (run_rounds). *)
From Coq Require Import List Bool Arith Lia Permutation.
Import ListNotations.
From LV Require Import Exec.Concertina Exec.ConcertinaProofs.

Section Seg.
  Variable its : list iteration.
  Variable present : name -> bool.

  (* the members of an iteration that are present, in declared order *)
  Definition block (it : iteration) : list name := filter present (i_members it).

  (* a queue made of non-iterated actions and whole blocks *)
  Inductive segmented : list name -> Prop :=
  | seg_nil : segmented []
  | seg_single : forall a l, iter_of its a = None -> segmented l -> segmented (a :: l)
  | seg_block : forall it l, In it its -> segmented l -> segmented (block it ++ l).

  Lemma segmented_app : forall l1 l2, segmented l1 -> segmented l2 -> segmented (l1 ++ l2).
  Proof.
    intros l1 l2 H1 H2. induction H1; simpl; auto.
    - constructor; auto.
    - rewrite <- app_assoc. constructor; auto.
  Qed.

  Lemma filter_nil : forall (f : name -> bool) l, (forall x, In x l -> f x = false) -> filter f l = [].
  Proof. induction l; simpl; intros H; auto. rewrite (H a (or_introl eq_refl)). apply IHl. auto. Qed.

  Lemma block_single : forall it m0 rest, i_members it = m0 :: rest -> present m0 = true ->
    (forall m, In m rest -> present m = false) -> block it = [m0].
  Proof. intros it m0 rest E P H. unfold block. rewrite E. simpl. rewrite P. rewrite filter_nil; auto. Qed.
End Seg.

Section SortSeg.
  Variable cfg : list action.
  Variable its : list iteration.
  Notation seg := (segmented its (is_action cfg)).

  Definition invC (s : sstate) : Prop :=
    match s with (ai, todo, result) =>
      (ai = None -> seg result) /\
      (forall it, ai = Some it -> exists r0 m0 rest,
          result = r0 ++ [m0] /\ i_members it = m0 :: rest /\ seg r0 /\
          forall m, In m rest -> (In m todo <-> is_action cfg m = true)) /\
      (forall it m0 rest, In it its -> i_members it = m0 :: rest -> In m0 todo ->
          forall m, In m (i_members it) -> ~ In m result)
    end.

  Lemma is_action_In : forall a, is_action cfg a = true <-> In a (names cfg).
  Proof. intros. unfold is_action. apply mem_In. Qed.

  Lemma invC_move : members_nodup its -> members_disjoint its ->
    forall s s', invA cfg its s -> invC s -> move cfg its s s' -> invC s'.
  Proof.
    intros MN MD s s' IA IC M. inversion M; subst.
    - (* single *)
      destruct IC as [C1 [_ C3]]. unfold invC. repeat split.
      + intros _. apply segmented_app; auto. constructor; auto. constructor.
      + intros; discriminate.
      + intros it m0 rest Hit Em Hm0 m Hm Hin. apply In_remove_one in Hm0. destruct Hm0 as [Hm0 _].
        apply in_app_iff in Hin. destruct Hin as [Hin|[<-|[]]].
        * eapply C3; eauto.
        * eapply iter_of_None; eauto.
    - (* ataman *)
      destruct IC as [C1 [_ C3]]. destruct IA as [I1 [I2 [I3 [I4 _]]]].
      pose proof (iter_of_Some its a it H0) as [Hit Hain].
      unfold is_ataman in H1. rewrite H0 in H1. destruct (i_members it) as [|m0 rest] eqn:Em; [discriminate|].
      apply Nat.eqb_eq in H1. subst m0.
      assert (Hnd : NoDup (a :: rest)) by (rewrite <- Em; apply MN; auto). inversion Hnd as [|? ? Hna Hnr]; subst.
      assert (Hact : is_action cfg a = true) by (apply is_action_In, I1; auto).
      assert (F : forall m, In m rest -> (In m (remove_one a todo) <-> is_action cfg m = true)).
      { intros m Hm. rewrite In_remove_one, is_action_In. split.
        - intros [Hx _]. apply I1. auto.
        - intros Hx. apply I1 in Hx. destruct Hx as [Hx|Hx].
          + exfalso. eapply (C3 it a rest); eauto. rewrite Em. right. exact Hm.
          + split; auto. intros ->. contradiction. }
      assert (C3' : forall it' m0 rest', In it' its -> i_members it' = m0 :: rest' -> In m0 (remove_one a todo) ->
                    forall m, In m (i_members it') -> ~ In m (result ++ [a])).
      { intros it' m0 rest' Hit' Em' Hm0 m Hm Hin. apply In_remove_one in Hm0. destruct Hm0 as [Hm0 Hne].
        apply in_app_iff in Hin. destruct Hin as [Hin|[<-|[]]].
        - eapply C3; eauto.
        - assert (it' = it) by (apply (MD it' it a); auto; rewrite Em; left; reflexivity).
          subst it'. rewrite Em in Em'. inversion Em'; subst. congruence. }
      destruct (existsb (fun m => mem m (remove_one a todo)) (a :: rest)) eqn:Ex; unfold invC; repeat split; auto.
      + intros; discriminate.
      + intros it' E. inversion E; subst it'. exists result, a, rest. repeat split; auto; apply F; auto.
      + intros _. apply segmented_app; auto.
        rewrite <- (app_nil_r [a]). rewrite <- (block_single (is_action cfg) it a rest Em Hact).
        * constructor; auto. constructor.
        * intros m Hm. destruct (is_action cfg m) eqn:Ea; auto. apply F in Ea; auto.
          assert (existsb (fun m => mem m (remove_one a todo)) (a :: rest) = true); [|congruence].
          apply existsb_exists. exists m. split; [right; auto | apply mem_In; auto].
      + intros; discriminate.
    - (* block *)
      destruct IC as [_ [C2 C3]]. destruct IA as [I1 [I2 [I3 [I4 I5]]]]. specialize (I5 it eq_refl).
      destruct (C2 it eq_refl) as [r0 [m0 [rest [Er [Em [Sr F]]]]]].
      assert (Hm0r : In m0 result) by (rewrite Er; apply in_app_iff; right; left; reflexivity).
      assert (Hact : is_action cfg m0 = true) by (apply is_action_In, I1; auto).
      assert (Hel : elig_of it todo = filter (is_action cfg) rest).
      { unfold elig_of. rewrite Em. simpl. assert (mem m0 todo = false) by (apply mem_false; apply I4; auto).
        rewrite H. apply filter_ext_in. intros m Hm. specialize (F m Hm). rewrite <- mem_In in F.
        destruct (mem m todo), (is_action cfg m); auto; [symmetry|]; apply F; auto. }
      unfold invC. repeat split.
      + intros _. rewrite Er, <- app_assoc. apply segmented_app; auto.
        replace ([m0] ++ elig_of it todo) with (block (is_action cfg) it ++ []).
        * constructor; auto. constructor.
        * rewrite app_nil_r. unfold block. rewrite Em. simpl. rewrite Hact, Hel. reflexivity.
      + intros; discriminate.
      + intros it' m0' rest' Hit' Em' Hm0' m Hm Hin. apply In_remove_all in Hm0'. destruct Hm0' as [Hm0' _].
        apply in_app_iff in Hin. destruct Hin as [Hin|Hin].
        * eapply C3; eauto.
        * unfold elig_of in Hin. apply filter_In in Hin. destruct Hin as [Hin _].
          assert (it' = it) by (apply (MD it' it m); auto). subst it'. rewrite Em in Em'. inversion Em'; subst.
          eapply I4; eauto.
  Qed.

  Theorem sort_contiguous : forall l, wfb cfg its = true -> sort_actions cfg its = Ok l -> seg l.
  Proof.
    intros l W H. destruct (sort_actions_moves cfg its l W H) as [ai' M].
    pose proof (wfb_members_nodup cfg its W) as MN. pose proof (wfb_members_disjoint cfg its W) as MD.
    assert (I : invA cfg its (ai', [], l) /\ invC (ai', [], l)).
    { eapply (moves_inv cfg its (fun s => invA cfg its s /\ invC s)); [| exact M |].
      - intros s s' [A C] Mv. split; [eapply invA_move; eauto | eapply invC_move; eauto].
      - split; [apply invA_init; apply (wfb_names cfg its); auto|]. unfold invC. repeat split.
        + intros _. constructor.
        + intros; discriminate.
        + intros it m0 rest _ _ _ m _ []. }
    destruct I as [[I1 _] [C1 [C2 _]]]. destruct ai' as [it|]; auto.
    destruct (C2 it eq_refl) as [r0 [m0 [rest [Er [Em [Sr F]]]]]]. rewrite Er.
    apply segmented_app; auto. rewrite <- (app_nil_r [m0]).
    rewrite <- (block_single (is_action cfg) it m0 rest Em).
    - constructor; [|constructor]. 
      assert (A : invA cfg its (Some it, [], l)).
      { eapply (moves_inv cfg its (invA cfg its)); [intros; eapply invA_move; eauto | exact M |].
        apply invA_init. apply (wfb_names cfg its); auto. }
      destruct A as [_ [_ [_ [_ A5]]]]. auto.
    - apply is_action_In, I1. left. rewrite Er. apply in_app_iff. right. left. reflexivity.
    - intros m Hm. destruct (is_action cfg m) eqn:Ea; auto. apply F in Ea; auto. destruct Ea.
  Qed.
End SortSeg.

(* ------------------------------------------------------------------ Run executes a block round by round *)
Inductive sublist : list name -> list name -> Prop :=
| sl_nil : sublist [] []
| sl_skip : forall x l1 l2, sublist l1 l2 -> sublist l1 (x :: l2)
| sl_keep : forall x l1 l2, sublist l1 l2 -> sublist (x :: l1) (x :: l2).

Lemma sublist_In : forall l1 l2, sublist l1 l2 -> forall x, In x l1 -> In x l2.
Proof. induction 1; simpl; intros y Hy; auto. destruct Hy; auto. Qed.

Lemma sublist_NoDup : forall l1 l2, sublist l1 l2 -> NoDup l2 -> NoDup l1.
Proof.
  induction 1; intros N; auto; inversion N; subst; auto.
  constructor; auto. intros Hx. apply H2. eapply sublist_In; eauto.
Qed.

(* successive rounds: every round is an order-preserving part of the previous one *)
Inductive chain : list name -> list (list name) -> Prop :=
| chain_nil : forall c, chain c []
| chain_cons : forall c c' cs, sublist c' c -> chain c' cs -> chain c (c' :: cs).

Section RunRounds.
  Variable its : list iteration.
  Variable raised : list name -> signal -> bool.
  Variable present : name -> bool.
  Notation step := (step its raised).
  Notation run := (run its raised).

  (* the part of the trace produced by one block: the block, then at most max(reps,1) - 1 further rounds *)
  Definition block_trace (it : iteration) (b t : list name) : Prop :=
    exists cs, chain b cs /\ t = b ++ concat cs /\ S (length cs) <= Nat.max (i_reps it) 1.

  Inductive plan_trace : list name -> list name -> Prop :=
  | pt_nil : plan_trace [] []
  | pt_single : forall a l t, iter_of its a = None -> plan_trace l t -> plan_trace (a :: l) (a :: t)
  | pt_block : forall it l t bt, In it its -> block_trace it (block present it) bt -> plan_trace l t ->
      plan_trace (block present it ++ l) (bt ++ t).

  Inductive star : st -> st -> Prop :=
  | star_refl : forall s, star s s
  | star_step : forall s s1 s2, step s = Some s1 -> star s1 s2 -> star s s2.

  Lemma star_trans : forall s1 s2 s3, star s1 s2 -> star s2 s3 -> star s1 s3.
  Proof. induction 1; auto. intros. econstructor; eauto. Qed.

  Lemma star_final : forall s s', star s s' -> q s' = [] -> forall fuel, mu its s <= fuel -> run fuel s = s'.
  Proof.
    induction 1; intros Q fuel F.
    - destruct fuel; simpl; auto. unfold Concertina.step. rewrite Q. reflexivity.
    - destruct (step_mu its raised s s1 H) as [M _]. destruct fuel; [lia|]. simpl. rewrite H. apply IHstar; auto. lia.
  Qed.

  Lemma insert_run : forall it a l1 rest, (forall x, In x l1 -> same_iter its it x = true) ->
    (forall y, In y rest -> same_iter its it y = false) ->
    insert_after_run its it a (l1 ++ rest) = l1 ++ a :: rest.
  Proof.
    induction l1 as [|x l1 IH]; simpl; intros rest H1 H2.
    - destruct rest as [|y rest]; simpl; auto. rewrite (H2 y (or_introl eq_refl)). reflexivity.
    - rewrite (H1 x (or_introl eq_refl)). f_equal. apply IH; auto.
  Qed.

  Lemma same_iter_of : forall it x, iter_of its x = Some it -> same_iter its it x = true.
  Proof. intros. unfold same_iter. rewrite H. apply Nat.eqb_refl. Qed.

  (* one round *)
  Lemma round_star : forall it cur nxt rest s n,
    q s = cur ++ nxt ++ rest ->
    (forall x, In x (cur ++ nxt) -> iter_of its x = Some it) ->
    (forall y, In y rest -> same_iter its it y = false) ->
    NoDup (cur ++ nxt) ->
    (forall x, In x cur -> cnt s x = n) ->
    exists s' sv, star s s' /\ q s' = nxt ++ sv ++ rest /\ sublist sv cur /\ trace s' = trace s ++ cur /\
                  (forall x, In x sv -> cnt s' x = S n) /\ (forall x, ~ In x cur -> cnt s' x = cnt s x) /\
                  (i_reps it <= S n -> sv = []).
  Proof.
    intros it. induction cur as [|a cur IH]; intros nxt rest s n Q I R N C.
    - exists s, []. simpl in *. rewrite app_nil_r. repeat split; auto; try constructor. intros x [].
    - assert (Ia : iter_of its a = Some it) by (apply I; left; reflexivity).
      simpl in N. inversion N as [|? ? Na Nr]; subst.
      assert (Ca : cnt s a = n) by (apply C; left; reflexivity).
      destruct (step s) as [s1|] eqn:E.
      2:{ unfold Concertina.step in E. rewrite Q in E. simpl in E. rewrite Ia in E.
          destruct (i_reps it <=? S (cnt s a)); [discriminate|]. destruct (poll _ _ _ _) as [[|] ?]; discriminate. }
      pose proof (step_cases its raised s s1 E) as [a' [q' [Eq [Et Cs]]]].
      rewrite Q in Eq. simpl in Eq. inversion Eq; subst a' q'. clear Eq.
      destruct Cs as [[Hn _]|[it' [Hit' [Ec Cs]]]]; [congruence|]. assert (it' = it) by congruence. subst it'.
      assert (Cs' : (q s1 = cur ++ nxt ++ rest) \/
                    (q s1 = cur ++ (nxt ++ [a]) ++ rest /\ S (cnt s a) < i_reps it)).
      { destruct Cs as [[E1 _]|[[E1 _]|[E1 [L _]]]]; auto. right. split; auto. rewrite E1.
        rewrite (app_assoc cur nxt rest). rewrite insert_run; auto.
        - rewrite <- !app_assoc. reflexivity.
        - intros x Hx. apply same_iter_of. apply I. right. exact Hx. }
      assert (C1 : forall x, In x cur -> cnt s1 x = n).
      { intros x Hx. rewrite Ec. unfold upd. destruct (x =? a) eqn:Exa.
        - apply Nat.eqb_eq in Exa. subst. exfalso. apply Na. apply in_app_iff. auto.
        - apply C. right. exact Hx. }
      destruct Cs' as [Q1|[Q1 L]].
      + destruct (IH nxt rest s1 n Q1) as [s' [sv [S1 [Q' [SL [T' [Cv [Co Rz]]]]]]]]; auto.
        { intros x Hx. apply I. right. exact Hx. }
        exists s', sv. repeat split; auto.
        * econstructor; eauto.
        * apply sl_skip. exact SL.
        * rewrite T', Et. rewrite <- app_assoc. reflexivity.
        * intros x Hx. rewrite Co; [|intros Hc; apply Hx; right; exact Hc]. rewrite Ec. unfold upd.
          destruct (x =? a) eqn:Exa; auto. apply Nat.eqb_eq in Exa. subst. exfalso. apply Hx. left. reflexivity.
      + destruct (IH (nxt ++ [a]) rest s1 n Q1) as [s' [sv [S1 [Q' [SL [T' [Cv [Co Rz]]]]]]]]; auto.
        { intros x Hx. apply I. rewrite app_assoc in Hx. apply in_app_iff in Hx. destruct Hx as [Hx|[<-|[]]]; [right; exact Hx | left; reflexivity]. }
        { rewrite app_assoc. apply NoDup_Add with (a := a) (l := cur ++ nxt); auto.
          rewrite <- (app_nil_r (cur ++ nxt)) at 1. apply Add_app. }
        exists s', (a :: sv). repeat split; auto.
        * econstructor; eauto.
        * rewrite Q'. rewrite <- !app_assoc. reflexivity.
        * apply sl_keep. exact SL.
        * rewrite T', Et. rewrite <- app_assoc. reflexivity.
        * intros x [<-|Hx]; auto. rewrite Co.
          -- rewrite Ec. unfold upd. rewrite Nat.eqb_refl. congruence.
          -- intros Hc. apply Na. apply in_app_iff. auto.
        * intros x Hx. rewrite Co; [|intros Hc; apply Hx; right; exact Hc]. rewrite Ec. unfold upd.
          destruct (x =? a) eqn:Exa; auto. apply Nat.eqb_eq in Exa. subst. exfalso. apply Hx. left. reflexivity.
        * intros Hle. lia.
  Qed.

  (* all rounds of one block *)
  Lemma block_star : forall it k cur rest s n,
    q s = cur ++ rest ->
    (forall x, In x cur -> iter_of its x = Some it) ->
    (forall y, In y rest -> same_iter its it y = false) ->
    NoDup cur -> (forall x, In x cur -> cnt s x = n) -> i_reps it <= S n + k ->
    exists s' cs, star s s' /\ q s' = rest /\ trace s' = trace s ++ cur ++ concat cs /\ chain cur cs /\
                  length cs <= k /\ (forall x, ~ In x cur -> cnt s' x = cnt s x).
  Proof.
    intros it. induction k as [|k IH]; intros cur rest s n Q I R N C L.
    - destruct (round_star it cur [] rest s n) as [s' [sv [S1 [Q' [SL [T' [Cv [Co Rz]]]]]]]]; auto;
        try (rewrite app_nil_r; auto).
      rewrite Rz in Q' by lia. exists s', []. simpl in *. rewrite app_nil_r. repeat split; auto. constructor.
    - destruct (round_star it cur [] rest s n) as [s' [sv [S1 [Q' [SL [T' [Cv [Co Rz]]]]]]]]; auto;
        try (rewrite app_nil_r; auto).
      simpl in Q'.
      destruct (IH sv rest s' (S n)) as [s'' [cs [S2 [Q'' [T'' [Ch [Len Co']]]]]]]; auto.
      + intros x Hx. apply I. eapply sublist_In; eauto.
      + eapply sublist_NoDup; eauto.
      + lia.
      + exists s'', (sv :: cs). repeat split; auto.
        * eapply star_trans; eauto.
        * rewrite T'', T'. simpl. rewrite <- !app_assoc. reflexivity.
        * constructor; auto.
        * simpl. lia.
        * intros x Hx. rewrite Co'; [apply Co; auto|]. intros Hc. apply Hx. eapply sublist_In; eauto.
  Qed.

  Hypothesis ids_nodup : NoDup (map i_id its).
  Hypothesis disjoint : members_disjoint its.

  Lemma id_inj : forall i j, In i its -> In j its -> i_id i = i_id j -> i = j.
  Proof.
    clear disjoint. revert ids_nodup. generalize its as L. induction L as [|x L IH]; simpl; intros N i j Hi Hj E; [contradiction|].
    inversion N; subst. destruct Hi as [<-|Hi], Hj as [<-|Hj]; auto.
    - exfalso. apply H1. rewrite E. apply in_map. exact Hj.
    - exfalso. apply H1. rewrite <- E. apply in_map. exact Hi.
  Qed.

  Lemma plan_star : forall l, segmented its present l -> forall s,
    q s = l -> NoDup l -> (forall x, In x l -> present x = true) -> (forall x, In x l -> cnt s x = 0) ->
    exists s' t, star s s' /\ q s' = [] /\ trace s' = trace s ++ t /\ plan_trace l t.
  Proof.
    induction 1 as [|a l Ha Sl IH|it l Hit Sl IH]; intros s Q N P C.
    - exists s, []. rewrite app_nil_r. repeat split; auto; constructor.
    - inversion N; subst.
      assert (E : step s = Some (mkSt l (cnt s) (wrench s) (trace s ++ [a]))).
      { unfold Concertina.step. rewrite Q, Ha. reflexivity. }
      destruct (IH (mkSt l (cnt s) (wrench s) (trace s ++ [a]))) as [s' [t [S1 [Q' [T' PT]]]]]; simpl; auto.
      { intros x Hx. apply P. right. exact Hx. } { intros x Hx. apply C. right. exact Hx. }
      exists s', (a :: t). repeat split; auto.
      + econstructor; eauto.
      + rewrite T'. simpl. rewrite <- app_assoc. reflexivity.
      + constructor; auto.
    - set (b := block present it) in *.
      assert (Nb : NoDup b /\ NoDup l /\ forall x, In x b -> ~ In x l).
      { clear - N. induction b; simpl in *; [repeat split; auto; constructor|]. inversion N; subst.
        destruct (IHb H2) as [A [B D]]. repeat split; auto.
        - constructor; auto. intros Hx. apply H1. apply in_app_iff. auto.
        - intros x [<-|Hx]; auto. intros Hl. apply H1. apply in_app_iff. auto. }
      destruct Nb as [Nb [Nl Dj]].
      assert (Ib : forall x, In x b -> iter_of its x = Some it).
      { intros x Hx. unfold b, block in Hx. apply filter_In in Hx. apply iter_of_unique; tauto. }
      assert (Rl : forall y, In y l -> same_iter its it y = false).
      { intros y Hy. unfold same_iter. destruct (iter_of its y) as [j|] eqn:Ej; auto.
        apply Nat.eqb_neq. intros Eid. apply iter_of_Some in Ej. destruct Ej as [Hj Hyj].
        assert (j = it) by (apply id_inj; auto). subst j.
        apply (Dj y); auto. unfold b, block. apply filter_In. split; auto. apply P. apply in_app_iff. auto. }
      destruct (block_star it (i_reps it - 1) b l s 0) as [s1 [cs [S1 [Q1 [T1 [Ch [Len Co]]]]]]]; auto.
      { intros x Hx. apply C. apply in_app_iff. auto. } { lia. }
      destruct (IH s1) as [s' [t [S2 [Q' [T' PT]]]]]; auto.
      { intros x Hx. apply P. apply in_app_iff. auto. }
      { intros x Hx. rewrite Co; [apply C; apply in_app_iff; auto|]. intros Hb. apply (Dj x); auto. }
      exists s', ((b ++ concat cs) ++ t). repeat split; auto.
      + eapply star_trans; eauto.
      + rewrite T', T1. rewrite <- !app_assoc. reflexivity.
      + constructor; auto. exists cs. repeat split; auto. lia.
  Qed.

  (* the trace is: every non-iterated action once, every block round by round, in the order of the queue *)
  Theorem run_rounds : forall l fuel, segmented its present l -> NoDup l -> (forall x, In x l -> present x = true) ->
    run_bound its l <= fuel -> plan_trace l (trace (run fuel (init l))).
  Proof.
    intros l fuel Sg N P F. destruct (plan_star l Sg (init l)) as [s' [t [S1 [Q' [T' PT]]]]]; auto.
    rewrite (star_final (init l) s' S1 Q' fuel); [|rewrite mu_init; auto]. rewrite T'. simpl. exact PT.
  Qed.
End RunRounds.

(* sort + run: the executed trace follows a permutation of the actions made of whole blocks, every block
   executed round by round *)
Theorem execute_rounds : forall cfg its raised t,
  wfb cfg its = true -> execute cfg its raised = Some t ->
  exists l, Permutation l (names cfg) /\ segmented its (is_action cfg) l /\
            plan_trace its (is_action cfg) l t.
Proof.
  intros cfg its raised t W E. unfold execute in E. destruct (sort_actions cfg its) as [l| |] eqn:S; try discriminate.
  inversion E; subst t; clear E. exists l.
  pose proof (sort_perm cfg its l W S) as P. pose proof (sort_contiguous cfg its l W S) as Sg.
  repeat split; auto. apply run_rounds; auto.
  - apply nodupb_NoDup. apply (wfb_split cfg its) in W. tauto.
  - apply (wfb_members_disjoint cfg its); auto.
  - eapply Permutation_NoDup; [apply Permutation_sym; exact P | apply (wfb_names cfg its); auto].
  - intros x Hx. apply mem_In. eapply Permutation_in; eauto.
Qed.
