(* full-strength statement; checks iff the current source emits a LIMIT clause for every K incl. 0 *)
From Coq Require Import List ZArith String.
From LV Require Import Exec.PyVal Exec.PlanRulesProofs.
From LVGen Require Import PlanRules.
Theorem limit_clause_all_k :
  forall a k, limit_of a = Some (Z.of_nat k) -> limit_clause a = limit_text k.
Proof.
  destruct limit_clause_status as [H|[E _]]; [exact H|]. vm_compute in E. discriminate.
Qed.
