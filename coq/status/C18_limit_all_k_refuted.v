(* witness K = 0: checks iff the current source emits no LIMIT clause for @Limit(P, 0) *)
From Coq Require Import List ZArith String.
From LV Require Import Exec.PyVal Exec.PlanRulesProofs.
From LVGen Require Import PlanRules.
Theorem limit_clause_all_k_refuted :
  exists a k, limit_of a = Some (Z.of_nat k) /\ limit_clause a <> limit_text k.
Proof.
  exists ann_limit0, 0. split; [reflexivity|]. vm_compute. discriminate.
Qed.
