(* witness @Limit(P, 0) alone: checks iff the current source lets such a predicate be injected *)
From Coq Require Import List ZArith String.
From LV Require Import Exec.PyVal Exec.PlanRulesProofs.
From LVGen Require Import PlanRules.
Theorem ordered_not_injected_refuted :
  exists a, (has_order a \/ has_limit a) /\ ok_injection a = true.
Proof.
  exists ann_limit0. split; [right; exists 0; reflexivity|]. vm_compute. reflexivity.
Qed.
