(* full-strength statement; checks iff every predicate with an ordering or ANY limit is non-injectable *)
From Coq Require Import List ZArith String.
From LV Require Import Exec.PyVal Exec.PlanRulesProofs.
From LVGen Require Import PlanRules.
Theorem ordered_not_injected :
  forall a, has_order a \/ has_limit a -> ok_injection a = false.
Proof.
  destruct ordered_not_injected_status as [H|[E _]]; [exact H|]. vm_compute in E. discriminate.
Qed.
