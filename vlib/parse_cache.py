"""Harness-side speed-up: memoise parse.ParseFile for the dialect *library* program.

universe.LogicaProgram.__init__ re-parses the (constant) library text of the dialect on every
compilation (~0.25 s with the Python parser).  Only calls with a single positional text argument
(that is how universe.py calls it) are memoised, keyed by the exact text; the user program is
always parsed by the real parser (vlib.logica_run passes import_root=...).  A deep copy is returned,
so callers cannot share structure.  The first call for each distinct text runs the real parser of
the current tree.
"""
import copy

from . import logica_run


def install():
  parse = logica_run.modules()[0]
  if getattr(parse, '_lv_parse_cache', None) is not None:
    return
  orig = parse.ParseFile
  cache = {}

  def cached(s, *args, **kwargs):
    if args or kwargs:
      return orig(s, *args, **kwargs)
    key = str(s)
    if key not in cache:
      cache[key] = orig(s)
    return copy.deepcopy(cache[key])
  parse._lv_parse_cache = cache
  parse.ParseFile = cached
