"""Running the real pipeline of /repo in process: parse -> compile -> execute on SQLite.

Mirrors logica.py main (sqlite branch): statements = [preamble] + defines_and_exports + [main].
Everything is imported from common.REPO's *current* working tree.
"""
import contextlib
import io
import json

from . import common

DIAGNOSTIC = ('Parsing', 'RuleCompile', 'Functor', 'TypeError')


def modules():
  common.repo_path()
  from parser_py import parse
  from compiler import universe, rule_translate, functors
  from common import sqlite3_logica
  from type_inference.research import infer
  return parse, universe, rule_translate, functors, sqlite3_logica, infer


def classify(e):
  """Maps an exception of the pipeline to a small enum."""
  parse, universe, rule_translate, functors, _, infer = modules()
  if isinstance(e, parse.ParsingException):
    return 'Parsing'
  if isinstance(e, rule_translate.RuleCompileException):
    return 'RuleCompile'
  if isinstance(e, functors.FunctorError):
    return 'Functor'
  if isinstance(e, infer.TypeErrorCaughtException):
    return 'TypeError'
  return 'Internal:%s' % type(e).__name__


def parse_rules(text, import_root=None):
  parse = modules()[0]
  with contextlib.redirect_stdout(io.StringIO()), contextlib.redirect_stderr(io.StringIO()):
    return parse.ParseFile(text, import_root=import_root)['rule']


def compile_pred(text, pred, user_flags=None, import_root=None, rules=None):
  """Returns ('ok', {'sql', 'preamble', 'defines_and_exports', 'main', 'program'}) or (class, message)."""
  parse, universe = modules()[:2]
  try:
    with contextlib.redirect_stdout(io.StringIO()), contextlib.redirect_stderr(io.StringIO()):
      if rules is None:
        rules = parse.ParseFile(text, import_root=import_root)['rule']
      program = universe.LogicaProgram(rules, user_flags=user_flags or {})
      sql = program.FormattedPredicateSql(pred)
    ex = program.execution
    return 'ok', {'sql': sql, 'preamble': ex.preamble, 'defines_and_exports': list(ex.defines_and_exports),
                  'main': ex.main_predicate_sql, 'program': program}
  except Exception as e:  # pylint: disable=broad-except
    return classify(e), '%s' % (e,)


def decode_cell(v):
  """SQLite returns lists / records as JSON text; decode when it parses as a list or object."""
  if isinstance(v, str) and v[:1] in '[{':
    try:
      return json.loads(v)
    except ValueError:
      return v
  return v


class SqlTimeout(Exception):
  pass


def execute(statements, connection=None, decode=True, time_limit=None):
  """Runs statements like sqlite3_logica.RunSqlScript; returns (header, rows).

  time_limit: seconds after which the query is interrupted (SqlTimeout); generated programs can
  contain large cross products that are of no interest."""
  import time as _time
  sqlite3_logica = modules()[4]
  own = connection is None
  connect = connection or sqlite3_logica.SqliteConnect()
  deadline = _time.time() + time_limit if time_limit else None
  if deadline:
    connect.set_progress_handler(lambda: 1 if _time.time() > deadline else 0, 200000)
  try:
    cursor = connect.cursor()
    for s in statements[:-1]:
      cursor.executescript(s)
    cursor.execute(statements[-1])
    rows = cursor.fetchall()
    header = [d[0] for d in cursor.description]
  except Exception as e:  # pylint: disable=broad-except
    if deadline and _time.time() > deadline and 'interrupt' in str(e).lower():
      raise SqlTimeout('query interrupted after %ss' % time_limit)
    raise
  finally:
    if deadline:
      connect.set_progress_handler(None, 0)
    if own:
      connect.close()
  if decode:
    rows = [tuple(decode_cell(v) for v in row) for row in rows]
  return header, rows


def run_pred(text, pred, user_flags=None, import_root=None, decode=True, rules=None, time_limit=None):
  """Returns ('ok', header, rows) | (class, message, None).  SQLite errors are class 'SqlError'."""
  st, res = compile_pred(text, pred, user_flags=user_flags, import_root=import_root, rules=rules)
  if st != 'ok':
    return st, res, None
  try:
    header, rows = execute([res['preamble']] + res['defines_and_exports'] + [res['main']], decode=decode,
                           time_limit=time_limit)
  except SqlTimeout as e:
    return 'Timeout', str(e), res['sql']
  except Exception as e:  # pylint: disable=broad-except
    return 'SqlError', '%s: %s' % (type(e).__name__, e), res['sql']
  return 'ok', header, rows


def bag(rows):
  """Canonical multiset of rows (sorted list of canonical JSON)."""
  return sorted(common.canon(list(r)) for r in rows)
