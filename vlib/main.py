"""Entry point: check <id> <quick|thorough> [--replay file]."""
import importlib
import os
import sys
import traceback
import faulthandler
import signal

try:
  faulthandler.register(signal.SIGUSR1, all_threads=True)
except Exception:
  pass


def main(argv):
  if len(argv) < 2:
    print('usage: check <id> <quick|thorough> [--replay file]')
    return 2
  pid, tier = argv[0].upper(), argv[1]
  if tier not in ('quick', 'thorough'):
    print('tier must be quick or thorough')
    return 2
  replay = None
  if '--replay' in argv:
    replay = argv[argv.index('--replay') + 1]
    os.environ['VERIF_REPLAY'] = '1'   # a replay does not rewrite evidence/<id>.json (it writes <id>.replay.json)
  os.environ['VERIF_TIER'] = tier
  mod = importlib.import_module('props.%s' % pid.lower())
  return mod.run(tier, replay)


if __name__ == '__main__':
  try:
    sys.exit(main(sys.argv[1:]))
  except SystemExit:
    raise
  except BaseException:
    traceback.print_exc()
    sys.exit(3)
