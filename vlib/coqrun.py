"""Building the Coq development and evaluating model definitions inside Coq."""
import fcntl
import glob
import os
import re
import shutil
import subprocess
import tempfile

from . import common

COQ = common.COQ
QFLAGS = ['-Q', os.path.join(COQ, 'theories'), 'LV', '-Q', os.path.join(COQ, 'gen'), 'LVGen']


def write_if_changed(path, text):
  try:
    with open(path) as f:
      if f.read() == text:
        return False
  except FileNotFoundError:
    pass
  os.makedirs(os.path.dirname(path), exist_ok=True)
  with open(path, 'w') as f:
    f.write(text)
  return True


class _Lock:
  def __enter__(self):
    self.f = open(os.path.join(common.VERIF, '.build.lock'), 'w')
    fcntl.flock(self.f, fcntl.LOCK_EX)
    return self

  def __exit__(self, *a):
    fcntl.flock(self.f, fcntl.LOCK_UN)
    self.f.close()


def _ensure_makefile():
  files = sorted(
      os.path.relpath(p, COQ)
      for d in ('theories', 'gen')
      for p in glob.glob(os.path.join(COQ, d, '**', '*.v'), recursive=True))
  text = '-Q theories LV\n-Q gen LVGen\n' + ''.join(f + '\n' for f in files)
  changed = write_if_changed(os.path.join(COQ, '_CoqProject'), text)
  if changed or not os.path.exists(os.path.join(COQ, 'Makefile')):
    subprocess.run(['coq_makefile', '-f', '_CoqProject', '-o', 'Makefile'], cwd=COQ,
                   check=True, stdout=subprocess.DEVNULL, stderr=subprocess.DEVNULL)


def build(targets=None, timeout=1500, jobs=16):
  """make the given .vo targets (paths relative to coq/, e.g. theories/Props/C16.vo).

  Full .vo build (never -vos).  Returns (ok, log, failing_files).
  """
  with _Lock():
    _ensure_makefile()
    cmd = ['timeout', str(timeout), 'make', '-j%d' % jobs, '-k']
    if targets:
      cmd += list(targets)
    p = subprocess.run(cmd, cwd=COQ, stdout=subprocess.PIPE, stderr=subprocess.STDOUT, text=True)
  log = p.stdout
  failing = sorted(set(re.findall(r'\*\*\* \[[^\]]*?:\s*([^\]\s]+\.vo)\]', log)))
  return p.returncode == 0, log, failing


def error_excerpt(log, n=40):
  lines = log.splitlines()
  for i, l in enumerate(lines):
    if l.startswith('File "') or 'Error' in l:
      return '\n'.join(lines[max(0, i - 1):i + n])
  return '\n'.join(lines[-n:])


def coq_eval(text, timeout=600, name='cases'):
  """Compile a scratch .v (outside /repo and /verif) against the built development."""
  d = tempfile.mkdtemp(prefix='lv_coq_')
  try:
    path = os.path.join(d, name + '.v')
    with open(path, 'w') as f:
      f.write(text)
    p = subprocess.run(['bash', '-c', 'ulimit -s unlimited 2>/dev/null; exec "$@"', 'sh',
                        'timeout', str(timeout), 'coqc'] + QFLAGS + [path], cwd=d,
                       stdout=subprocess.PIPE, stderr=subprocess.STDOUT, text=True)
    return p.returncode, p.stdout
  finally:
    shutil.rmtree(d, ignore_errors=True)


def parse_vm_list(out):
  """Parse `= [a; b; ...] : list _` blocks printed by `Eval vm_compute` into lists of token strings.

  Only for flat lists of atoms (numbers, booleans, constructor names).  Returns list of lists.
  """
  res = []
  for m in re.finditer(r'=\s*\[(.*?)\]\s*:\s*list', out, re.S):
    body = m.group(1).strip()
    res.append([x.strip().replace('%Z', '').replace('%N', '').replace('%nat', '')
                for x in body.split(';')] if body else [])
  return res


def print_assumptions(module, theorems, timeout=300):
  """Returns {theorem: assumptions text} by asking Coq (Print Assumptions)."""
  text = 'Require Import %s.\n' % module
  for t in theorems:
    text += 'Goal True. idtac "@@BEGIN %s". exact I. Qed.\nPrint Assumptions %s.\n' % (t, t)
  text += 'Goal True. idtac "@@END". exact I. Qed.\n'
  rc, out = coq_eval(text, timeout=timeout, name='assum')
  res = {}
  if rc != 0:
    return None, out
  cur = None
  buf = []
  for line in out.splitlines():
    if line.startswith('@@BEGIN '):
      cur = line[len('@@BEGIN '):].strip()
      buf = []
    elif line.startswith('@@END'):
      if cur:
        res[cur] = ' '.join(' '.join(buf).split())
      cur = None
    elif cur is not None:
      if line.startswith('@@'):
        continue
      buf.append(line)
      res[cur] = ' '.join(' '.join(buf).split())
  return res, out


def theorems_in(vfile):
  with open(vfile) as f:
    src = f.read()
  return re.findall(r'^\s*(?:Theorem|Corollary)\s+([A-Za-z0-9_\']+)', src, re.M)
