"""The proof stage shared by every check: build the property's theorems, collect assumptions."""
import os

from . import common, coqrun

KERNEL = 'Coq 8.16.1 kernel (coqc, full .vo build; vm_compute used, native_compute not used)'


def proof_stage(rep, pid, extra_trusted=()):
  """Builds theories/Props/<pid>.vo (and everything it depends on, including gen/*.v).

  Returns (ok, info).  info: {'log', 'failing', 'theorems', 'assumptions'}.
  """
  vfile = os.path.join(common.COQ, 'theories', 'Props', '%s.v' % pid)
  target = 'theories/Props/%s.vo' % pid
  ok, log, failing = coqrun.build([target])
  theorems = coqrun.theorems_in(vfile)
  info = {'log': log, 'failing': failing, 'theorems': theorems, 'assumptions': {}}
  discharged = 0
  trusted = [KERNEL]
  if ok:
    assum, out = coqrun.print_assumptions('LV.Props.%s' % pid, theorems)
    if assum is None:
      ok = False
      info['log'] = out
    else:
      info['assumptions'] = assum
      discharged = len(assum)
      axioms = sorted(set(a for a in assum.values() if 'Closed under the global context' not in a))
      if axioms:
        trusted += ['axioms reported by Print Assumptions: ' + a for a in axioms]
      else:
        trusted.append('Print Assumptions: every property theorem is "Closed under the global context" (no axioms)')
  trusted += list(extra_trusted)
  rep.coverage.update({
      'obligations': len(theorems),
      'discharged': discharged,
      'checker_cmd': 'make -C /verif/coq %s && coqc (Print Assumptions for %d theorems)' % (target, len(theorems)),
      'trusted_base': trusted,
      'theorems': theorems,
      'print_assumptions': info['assumptions'],
  })
  if not ok:
    info['excerpt'] = coqrun.error_excerpt(info['log'])
  return ok, info
