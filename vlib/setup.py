"""setup_cmd: regenerate gen/*.v from /repo, build everything (errors in a property's files are
reported by that property's check, not here)."""
import importlib
import pkgutil
import sys

from . import coqrun


def main():
  try:
    import translators
    for m in pkgutil.iter_modules(translators.__path__):
      mod = importlib.import_module('translators.' + m.name)
      if hasattr(mod, 'generate'):
        try:
          mod.generate()
        except Exception as e:  # reported by the check that needs it
          print('translator %s: %s' % (m.name, e))
  except ImportError:
    pass
  ok, log, failing = coqrun.build(None, timeout=3000)
  print(log[-2000:])
  print('setup build ok' if ok else 'setup build had failures: %s' % failing)
  try:
    from . import extract
    extract.build_all()
  except ImportError:
    pass
  return 0


if __name__ == '__main__':
  sys.exit(main())
