"""Shared machinery for the /verif checks: paths, PRNG, evidence, replays, known findings.

Every check is `check <id> <quick|thorough>`; see DESIGN.md section 6.
"""
import hashlib
import json
import os
import random
import sys
import time

VERIF = os.path.dirname(os.path.dirname(os.path.abspath(__file__)))
REPO = os.environ.get('VERIF_REPO', '/repo')
COQ = os.path.join(VERIF, 'coq')
EVIDENCE = os.path.join(VERIF, 'evidence')
REPLAYS = os.path.join(VERIF, 'replays')
KNOWN = os.path.join(VERIF, 'known_findings.json')
PY = '/venv/bin/python'


def seed():
  try:
    return int(os.environ.get('VERIF_SEED', '0'))
  except ValueError:
    return 0


def rng(salt=''):
  return random.Random('%d/%s' % (seed(), salt))


def repo_path():
  """Make /repo importable (and nothing else called logica)."""
  if REPO not in sys.path:
    sys.path.insert(0, REPO)


def canon(obj):
  return json.dumps(obj, sort_keys=True, ensure_ascii=False, default=str)


def short_hash(obj):
  return hashlib.sha256(canon(obj).encode('utf-8')).hexdigest()[:12]


class Known:
  """known_findings.json: entries {property, key, status, what, commit?}.

  Only status == "known" suppresses; "fixed" entries suppress nothing.
  The file is read, never written, at run time.
  """

  def __init__(self):
    try:
      with open(KNOWN) as f:
        self.entries = json.load(f).get('findings', [])
    except FileNotFoundError:
      self.entries = []

  def lookup(self, pid, key):
    for e in self.entries:
      if e.get('property') == pid and e.get('key') == key and e.get('status') == 'known':
        return e
    return None


class Report:
  """Collects violations / known findings of one check run and writes evidence."""

  def __init__(self, pid, tier, level):
    self.pid = pid
    self.tier = tier
    self.level = level
    self.t0 = time.time()
    self.known = Known()
    self.violations = 0
    self.known_hits = []
    self.coverage = {}
    self.assumptions = []
    self.lines = []

  def violation(self, key, replay, no_input=False):
    """key: stable identification of the failing input / call site (matched against known findings).

    replay: JSON-able object that replays the failure.  no_input: the obligation or
    correspondence broke and the search found no concrete failing input.
    """
    hit = self.known.lookup(self.pid, key) if not no_input else None
    if hit is not None:
      line = 'KNOWN-FINDING: property=%s %s' % (self.pid, hit.get('what', key))
      if line not in self.lines:
        print(line, flush=True)
        self.lines.append(line)
      self.known_hits.append(key)
      return False
    os.makedirs(REPLAYS, exist_ok=True)
    replay = dict(replay)
    replay.setdefault('property', self.pid)
    replay.setdefault('key', key)
    path = os.path.join(REPLAYS, '%s-%s.json' % (self.pid, short_hash(replay)))
    with open(path, 'w') as f:
      json.dump(replay, f, indent=1, sort_keys=True, ensure_ascii=False, default=str)
    line = 'VIOLATION property=%s replay=%s' % (self.pid, path)
    if no_input:
      line += ' no-failing-input-found'
    print(line, flush=True)
    self.violations += 1
    return True

  def finish(self):
    os.makedirs(EVIDENCE, exist_ok=True)
    cov = dict(self.coverage)
    cov.setdefault('known_findings_hit', sorted(set(self.known_hits)))
    ev = {
        'property_id': self.pid,
        'tier': self.tier,
        'seed': seed(),
        'level': self.level,
        'coverage': cov,
        'assumptions': self.assumptions,
        'wall_s': round(time.time() - self.t0, 2),
        'violations': self.violations,
    }
    name = '%s.replay.json' % self.pid if os.environ.get('VERIF_REPLAY') else '%s.json' % self.pid
    with open(os.path.join(EVIDENCE, name), 'w') as f:
      json.dump(ev, f, indent=1, sort_keys=True, ensure_ascii=False, default=str)
      f.write('\n')
    return 1 if self.violations else 0
