"""Calibration: generate programs, run both sides, show disagreements."""
import sys, random, collections
from vlib import common
from props import coregen as G, corerun as R

PROFILE = dict(named_cols=0.4, partial_args=0.3, inclusion=0.25, assign=0.6, lists=0.3, records=0.3, combine=0.3,
               disjunction=0.3, filter=0.7, negation=0.25, two_rules=0.3, distinct=0.25, aggregation=0.3,
               ifthenelse=0.5, builtins=0.4, func_calls=0.4, set_agg=0.0)

def main(n, seed):
  items, metas = [], []
  cls = collections.Counter()
  for i in range(n):
    r = random.Random('%s/%d' % (seed, i))
    g = G.Gen(r, PROFILE)
    prog = g.generate()
    text = G.p_program(prog)
    res = R.run_impl(text, prog)
    nm = G.Names()
    for d in prog: nm.pred(d['name'])
    ptxt = G.c_program(prog, nm)
    q, order = R.coq_query(prog, res, nm)
    for d in prog:
      if d['kind']=='table':
        cls[res[d['name']][0]] += 1
    items.append('check_program %s %s' % (ptxt, q))
    items.append('[status %s]' % ptxt)
    metas.append((text, prog, res, order))
  vals = R.eval_batch(items)
  bad = 0
  for i, (text, prog, res, order) in enumerate(metas):
    codes, st = vals[2*i], vals[2*i+1][0]
    notok = [d['name'] for d in prog if d['kind']=='table' and res[d['name']][0] != 'ok']
    if any(codes) or notok:
      bad += 1
      if bad <= int(sys.argv[3]) if len(sys.argv) > 3 else 5:
        print('=' * 70, i, 'codes', list(zip(order, codes)), 'status', st)
        print(text)
        for p in notok: print('IMPL', p, res[p][:2])
        for p, c in zip(order, codes):
          if c:
            print('impl rows', p, res[p][1], sorted(map(str, res[p][2])))
            print('model', R.model_rows(prog, p))
  print('programs', n, 'with issues', bad, dict(cls))

main(int(sys.argv[1]), sys.argv[2])
