#!/usr/bin/env python3
"""Regenerates MANIFEST.json from tools/manifest_src.json (claims) + properties.jsonl (ids)."""
import json, os
here = os.path.dirname(os.path.dirname(os.path.abspath(__file__)))
src = json.load(open(os.path.join(here, 'tools', 'manifest_src.json')))
ids = [json.loads(l)['id'] for l in open(os.path.join(here, 'properties.jsonl')) if l.strip()]
checks = []
for pid in ids:
  c = src['claims'].get(pid)
  if not c:
    continue
  checks.append({
      'property_id': pid,
      'quick_cmd': './check %s quick' % pid,
      'thorough_cmd': './check %s thorough' % pid,
      'evidence_file': '/verif/evidence/%s.json' % pid,
      'replay_cmd_template': './check %s quick --replay {path}' % pid,
      'engine': 'coq',
      'level_claimed': {'category': c['category'], 'text': c['text'], 'design_ref': c.get('design_ref', 'DESIGN.md section 5, %s' % pid)},
      'level_note': c['note'],
      'technique': c['technique'],
  })
na = [{'property_id': pid, 'reason': src['not_applicable'].get(pid, 'not built yet in this round; no check is registered for it')}
      for pid in ids if pid not in src['claims']]
m = {
    'version': 1,
    'setup_cmd': src['setup_cmd'],
    'hooks': src['hooks'],
    'engines': src['engines'],
    'checks': checks,
    'notes': src['notes'],
    'not_applicable': na,
}
json.dump(m, open(os.path.join(here, 'MANIFEST.json'), 'w'), indent=1)
print('claims:', [c['property_id'] for c in checks], 'not claimed:', [n['property_id'] for n in na])
