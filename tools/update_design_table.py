#!/usr/bin/env python3
"""Rewrites the generated table of DESIGN.md section 7 (between the SEEDED-TABLE markers)."""
import os
import subprocess
here = os.path.dirname(os.path.abspath(__file__))
table = subprocess.run(['python3', os.path.join(here, 'mk_seeded_table.py')], capture_output=True, text=True, check=True).stdout
p = os.path.join(here, '..', 'DESIGN.md')
s = open(p).read()
a, b = '<!-- SEEDED-TABLE-BEGIN -->', '<!-- SEEDED-TABLE-END -->'
i, j = s.index(a) + len(a), s.index(b)
open(p, 'w').write(s[:i] + '\n' + table + s[j:])
