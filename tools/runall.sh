#!/bin/bash
# usage: tools/runall.sh <quick|thorough> [ids...]   -- runs checks sequentially, prints rc and time
tier=${1:-quick}; shift
ids=${@:-C01 C02 C03 C04 C05 C06 C07 C08 C09 C10 C11 C12 C13 C14 C15 C16 C17 C18 C19 C20}
cd "$(dirname "$0")/.."
for id in $ids; do
  [ -f props/$(echo $id | tr A-Z a-z).py ] || { echo "$id: no check"; continue; }
  s=$(date +%s)
  timeout 3600 ./check $id $tier > /tmp/runall_$id.log 2>&1; rc=$?
  e=$(date +%s)
  echo "$id rc=$rc $((e-s))s viol=$(grep -c '^VIOLATION' /tmp/runall_$id.log) known=$(grep -c '^KNOWN-FINDING' /tmp/runall_$id.log)"
done
