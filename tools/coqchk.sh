#!/bin/bash
# Independent re-check of every compiled property file and everything it depends on; prints the axiom summary.
cd "$(dirname "$0")/../coq" || exit 2
timeout 3000 coqchk -silent -o -Q theories LV -Q gen LVGen $(for i in $(seq -w 1 20); do echo LV.Props.C$i; done) 2>&1 | tail -14
