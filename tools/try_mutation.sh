#!/bin/bash
# usage: tools/try_mutation.sh <ID> <patch.diff> [demo.py] [tier]
# Applies the patch to a scratch worktree, runs the pinned suite and the demo there, then runs the check of <ID>
# from a scratch copy of /verif against that tree.  Everything scratch is removed afterwards.
id=$1; patch=$(readlink -f $2); demo=$3; tier=${4:-quick}
tag=${TRY_TAG:-}; wt=/tmp/try_wt_$tag$id; vf=/tmp/try_vf_$tag$id
git -C /repo worktree remove --force $wt >/dev/null 2>&1; rm -rf $wt $vf
git -C /repo worktree add --detach $wt HEAD >/dev/null 2>&1 || { echo "worktree failed"; exit 2; }
if [ -n "$demo" ] && [ -f "$demo" ]; then
  (cd $wt && PYTHONPATH=$wt PYTHONHASHSEED=0 timeout 600 /venv/bin/python $demo > /tmp/try_demo_clean_$tag$id.log 2>&1); echo "demo on clean tree: rc=$? $(tail -1 /tmp/try_demo_clean_$tag$id.log | cut -c1-100)"
fi
(cd $wt && git apply $patch) || { echo "patch does not apply"; git -C /repo worktree remove --force $wt; exit 2; }
(cd $wt && /venv/bin/python -m pytest -q -p no:cacheprovider --timeout=900 --continue-on-collection-errors 2>&1 | tail -1)
if [ -n "$demo" ] && [ -f "$demo" ]; then
  (cd $wt && PYTHONPATH=$wt PYTHONHASHSEED=0 timeout 600 /venv/bin/python $demo > /tmp/try_demo_mut_$tag$id.log 2>&1); echo "demo on changed tree: rc=$? $(tail -1 /tmp/try_demo_mut_$tag$id.log | cut -c1-100)"
fi
rsync -a --delete --exclude .git --exclude replays /verif/ $vf/
s=$(date +%s)
(cd $vf && VERIF_REPO=$wt timeout 3000 ./check $id $tier > /tmp/try_check_$tag$id.log 2>&1); rc=$?
echo "check $id $tier on changed tree: rc=$rc $(( $(date +%s)-s ))s violations=$(grep -c '^VIOLATION' /tmp/try_check_$tag$id.log) no-input=$(grep -c 'no-failing-input-found' /tmp/try_check_$tag$id.log)"
grep '^VIOLATION' /tmp/try_check_$tag$id.log | head -3
f=$(grep -o 'replay=[^ ]*' /tmp/try_check_$tag$id.log | head -1 | cut -d= -f2)
[ -n "$f" ] && [ -f "$f" ] && { mkdir -p /tmp/try_replays; cp $f /tmp/try_replays/$id-$(basename $f); echo "first replay saved: /tmp/try_replays/$id-$(basename $f)"; }
git -C /repo worktree remove --force $wt >/dev/null 2>&1; rm -rf $wt $vf
