#!/bin/bash
# usage: goal.sh <file.v> <line>  -- shows the proof state after the given line
f=$1; n=$2
d=$(mktemp -d /tmp/goal.XXXX)
head -n $n "$f" > $d/G.v
echo 'Show. Abort All.' >> $d/G.v
(cd $d && timeout 120 coqc -Q /verif/coq/theories LV -Q /verif/coq/gen LVGen G.v 2>&1 | head -${3:-80})
rm -rf $d
