#!/usr/bin/env python3
"""Re-verifies every independent breaking change under /tmp/mut_out/<ID>/ against the current /verif and stores
it as /verif/seeded/<ID>/ (patch.diff, demo.py, meta.json with what was run and what the check printed)."""
import json, os, re, shutil, subprocess, sys
ids = sys.argv[1:] or ['C%02d' % i for i in range(1, 21)]
for pid in ids:
  src = os.environ.get('SEED_SRC', '/tmp/mut_out') + '/%s' % pid
  if not os.path.exists(os.path.join(src, 'patch.diff')):
    print(pid, 'no patch'); continue
  p = subprocess.run(['/verif/tools/try_mutation.sh', pid, os.path.join(src, 'patch.diff'), os.path.join(src, 'demo.py')],
                     stdout=subprocess.PIPE, stderr=subprocess.STDOUT, text=True)
  out = p.stdout
  dst = '/verif/seeded/%s%s' % (pid, os.environ.get('SEED_SUFFIX', ''))
  os.makedirs(dst, exist_ok=True)
  shutil.copy(os.path.join(src, 'patch.diff'), dst)
  shutil.copy(os.path.join(src, 'demo.py'), dst)
  try:
    meta = json.load(open(os.path.join(src, 'meta.json')))
  except Exception:
    meta = {'property': pid}
  m = re.search(r'check %s quick on changed tree: rc=(\d+) (\d+)s violations=(\d+) no-input=(\d+)' % pid, out)
  meta['verified_by_coordinator'] = {
      'pinned_suite_with_change': (re.search(r'(\d+ failed, \d+ passed)', out) or [None, None])[1],
      'demo_on_clean_tree': (re.search(r'demo on clean tree: (rc=\d+)', out) or [None, None])[1],
      'demo_on_changed_tree': (re.search(r'demo on changed tree: (rc=\d+)', out) or [None, None])[1],
      'check_quick_on_changed_tree': {'exit': int(m.group(1)), 'seconds': int(m.group(2)), 'violation_lines': int(m.group(3)),
                                      'no_failing_input_found': int(m.group(4))} if m else None,
      'how': 'tools/try_mutation.sh %s patch.diff demo.py (scratch worktree of /repo + scratch copy of /verif, both removed)' % pid,
  }
  rp = re.search(r'first replay saved: (\S+)', out)
  if rp and os.path.exists(rp.group(1)):
    try:
      r = json.load(open(rp.group(1)))
      meta['first_replay_key'] = r.get('key')
    except Exception:
      pass
  json.dump(meta, open(os.path.join(dst, 'meta.json'), 'w'), indent=1, ensure_ascii=False)
  print(pid, meta['verified_by_coordinator']['check_quick_on_changed_tree'], flush=True)
