#!/usr/bin/env python3
"""Prints the markdown table of DESIGN.md section 7 from seeded/*/meta.json."""
import glob
import json
import os
import re

root = os.path.join(os.path.dirname(os.path.abspath(__file__)), '..', 'seeded')
rows = []
for d in sorted(glob.glob(os.path.join(root, 'C*'))):
  try:
    m = json.load(open(os.path.join(d, 'meta.json')))
  except Exception:  # pylint: disable=broad-except
    continue
  name = os.path.basename(d)
  s = re.sub(r'\s+', ' ', m.get('summary', '')).strip()
  first = re.split(r'(?<=[.;])\s', s)[0][:230].replace('|', '\\|')
  v = m.get('verified_by_coordinator', {})
  c = v.get('check_quick_on_changed_tree', {})
  caught = 'exit %s, %s VIOLATION line(s)' % (c.get('exit'), c.get('violation_lines')) if c else '?'
  by = m.get('caught_by') or m.get('first_replay_key') or ''
  rows.append('| %s | %s | %s | %s |' % (name, first, caught, str(by).replace('|', '\\|')[:90]))
print('| seeded/ | change (first sentence of meta.json summary) | quick check on the changed tree | first replay key |')
print('|---|---|---|---|')
print('\n'.join(rows))
