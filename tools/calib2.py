import sys, collections, json
from props import coregen as G, corerun as R, corecheck as K
import importlib

def main():
  mod = importlib.import_module('props.' + sys.argv[1])
  n = int(sys.argv[2]); salt = sys.argv[3]; show = int(sys.argv[4])
  cases=[]
  for i in range(n):
      s='%s/%d'%(salt,i); prog=K.gen_program(s, mod.PROFILE)
      cases.append((s, prog, G.p_program(prog)))
  res=K.judge_batch([(p,t,None) for _,p,t in cases])
  bad=0; cnt=collections.Counter()
  for (s,prog,text),j in zip(cases,res):
      if j.get('skipped'): cnt['skipped']+=1; continue
      if j['status']!=0: cnt['model_status_%d'%j['status']]+=1
      pr=K.problems(prog,j)
      if pr or j['status']!=0:
          bad+=1
          if bad<=show:
              print('='*70, s, 'status', j['status'], pr); print(text)
              for pred,kind,detail in pr:
                  print('  impl', pred, j['impl'][pred][:3]); print('  model', R.model_rows(prog,pred))
              if j['status']!=0:
                  for d in prog:
                      if d['kind']=='table': print('  impl', d['name'], j['impl'].get(d['name'],'?')[:2])
  print('bad',bad,'of',n,dict(cnt))
  

if __name__ == "__main__":
  main()
