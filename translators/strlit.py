"""Regenerates coq/gen/StrLitGen.v from the CURRENT source of QL.StrLiteral (FAIL CLOSED).

Reads with Python `ast` (nothing of /repo is imported or executed):
  compiler/dialects.py         the DIALECTS table and every dialect class's Name() constant;
  compiler/expr_translate.py   QL.StrLiteral: a sequence of
                                   if self.dialect.Name() in [<names>]: return <emit>
                               followed by `return <emit>`, where <emit> is
                                   '<pre>%s<suf>' % (literal['the_string'].replace(a, b)...)   or
                                   json.dumps(literal['the_string'], ensure_ascii=False);
                               and the FlagValue branch of QL.ConvertToSql, which must be
                                   return self.StrLiteral({'the_string': self.flag_values[flag]}).
Anything else raises TranslateError: the model cannot be regenerated and the check reports it.

Output: per dialect an `emit_kind` (LV.Lex.StrLit): Wrap pre suf [(from, to); ...] | JsonDumps.
"""
import ast
import os

from vlib import common, coqrun

OUT = os.path.join(common.COQ, 'gen', 'StrLitGen.v')


class TranslateError(Exception):
  pass


def _fail(msg, node=None):
  where = ' (line %d)' % node.lineno if node is not None and hasattr(node, 'lineno') else ''
  raise TranslateError(msg + where)


def _parse(rel):
  path = os.path.join(common.REPO, rel)
  with open(path, encoding='utf-8') as f:
    return ast.parse(f.read(), filename=path)


def _find_class(tree, name):
  for n in tree.body:
    if isinstance(n, ast.ClassDef) and n.name == name:
      return n
  _fail('class %s not found' % name)


def _find_method(cls, name):
  hits = [n for n in cls.body if isinstance(n, ast.FunctionDef) and n.name == name]
  if len(hits) != 1:
    _fail('method %s.%s not found exactly once' % (cls.name, name))
  return hits[0]


def dialect_names():
  """{engine key: Name() constant} from dialects.py."""
  tree = _parse('compiler/dialects.py')
  names = {}
  for n in ast.walk(tree):
    if isinstance(n, ast.ClassDef):
      for m in n.body:
        if isinstance(m, ast.FunctionDef) and m.name == 'Name':
          body = [s for s in m.body if not (isinstance(s, ast.Expr) and isinstance(s.value, ast.Constant))]
          if (len(body) != 1 or not isinstance(body[0], ast.Return) or
              not isinstance(body[0].value, ast.Constant) or not isinstance(body[0].value.value, str)):
            _fail('dialect %s: Name() is not `return <string constant>`' % n.name, m)
          names[n.name] = body[0].value.value
  table = None
  for n in tree.body:
    if isinstance(n, ast.Assign) and len(n.targets) == 1 and isinstance(n.targets[0], ast.Name) \
        and n.targets[0].id == 'DIALECTS':
      table = n.value
  if not isinstance(table, ast.Dict):
    _fail('DIALECTS is not a dict display')
  res = {}
  for k, v in zip(table.keys, table.values):
    if not (isinstance(k, ast.Constant) and isinstance(k.value, str) and isinstance(v, ast.Name)):
      _fail('DIALECTS entry is not "<engine>": <ClassName>', k)
    if v.id not in names:
      _fail('dialect class %s has no constant Name()' % v.id, v)
    res[k.value] = names[v.id]
  if not res:
    _fail('DIALECTS is empty')
  return res


def _is_the_string(node):
  """literal['the_string']"""
  return (isinstance(node, ast.Subscript) and isinstance(node.value, ast.Name) and node.value.id == 'literal'
          and isinstance(node.slice, ast.Constant) and node.slice.value == 'the_string')


def _replace_chain(node):
  steps = []
  while True:
    if _is_the_string(node):
      return list(reversed(steps))
    if (isinstance(node, ast.Call) and isinstance(node.func, ast.Attribute) and node.func.attr == 'replace'
        and len(node.args) == 2 and not node.keywords
        and all(isinstance(a, ast.Constant) and isinstance(a.value, str) for a in node.args)):
      a, b = node.args[0].value, node.args[1].value
      if a == '':
        _fail('replace with an empty pattern', node)
      steps.append((a, b))
      node = node.func.value
      continue
    _fail('StrLiteral: expected literal[\'the_string\'].replace(<const>, <const>)... got %s' % ast.dump(node)[:120],
          node)


def _emit_expr(node):
  """-> ('wrap', pre, suf, steps) | ('json',)"""
  if isinstance(node, ast.BinOp) and isinstance(node.op, ast.Mod):
    if not (isinstance(node.left, ast.Constant) and isinstance(node.left.value, str)):
      _fail('StrLiteral: format string is not a constant', node)
    fmt = node.left.value
    if fmt.count('%') != 1 or fmt.count('%s') != 1:
      _fail('StrLiteral: format string %r is not <pre>%%s<suf>' % fmt, node)
    pre, suf = fmt.split('%s')
    return ('wrap', pre, suf, _replace_chain(node.right))
  if (isinstance(node, ast.Call) and isinstance(node.func, ast.Attribute) and node.func.attr == 'dumps'
      and isinstance(node.func.value, ast.Name) and node.func.value.id == 'json'):
    kws = {k.arg: k.value for k in node.keywords}
    if (len(node.args) == 1 and _is_the_string(node.args[0]) and set(kws) == {'ensure_ascii'}
        and isinstance(kws['ensure_ascii'], ast.Constant) and kws['ensure_ascii'].value is False):
      return ('json',)
    _fail('StrLiteral: json.dumps call is not json.dumps(literal[\'the_string\'], ensure_ascii=False)', node)
  _fail('StrLiteral: unrecognised emit expression %s' % ast.dump(node)[:120], node)


def _name_test(test):
  """self.dialect.Name() in [<str constants>]  ->  list of names"""
  if (isinstance(test, ast.Compare) and len(test.ops) == 1 and isinstance(test.ops[0], (ast.In, ast.Eq))):
    l = test.left
    if (isinstance(l, ast.Call) and not l.args and not l.keywords and isinstance(l.func, ast.Attribute)
        and l.func.attr == 'Name' and isinstance(l.func.value, ast.Attribute) and l.func.value.attr == 'dialect'
        and isinstance(l.func.value.value, ast.Name) and l.func.value.value.id == 'self'):
      c = test.comparators[0]
      if isinstance(test.ops[0], ast.Eq) and isinstance(c, ast.Constant) and isinstance(c.value, str):
        return [c.value]
      if isinstance(test.ops[0], ast.In) and isinstance(c, (ast.List, ast.Tuple, ast.Set)) and all(
          isinstance(e, ast.Constant) and isinstance(e.value, str) for e in c.elts):
        return [e.value for e in c.elts]
  _fail('StrLiteral: condition is not `self.dialect.Name() in [<names>]`', test)


def str_literal_table():
  """{Name(): ('wrap', pre, suf, steps) | ('json',)} for every dialect of DIALECTS."""
  tree = _parse('compiler/expr_translate.py')
  imports_json = any(isinstance(n, ast.Import) and any(a.name == 'json' and a.asname is None for a in n.names)
                     for n in tree.body)
  ql = _find_class(tree, 'QL')
  fn = _find_method(ql, 'StrLiteral')
  if [a.arg for a in fn.args.args] != ['self', 'literal'] or fn.decorator_list:
    _fail('StrLiteral: unexpected signature', fn)
  body = [s for s in fn.body if not (isinstance(s, ast.Expr) and isinstance(s.value, ast.Constant))]
  branches = []
  default = None
  for i, s in enumerate(body):
    if isinstance(s, ast.If):
      if s.orelse or len(s.body) != 1 or not isinstance(s.body[0], ast.Return) or s.body[0].value is None:
        _fail('StrLiteral: branch is not `if <dialect test>: return <emit>`', s)
      branches.append((_name_test(s.test), _emit_expr(s.body[0].value)))
    elif isinstance(s, ast.Return) and i == len(body) - 1 and s.value is not None:
      default = _emit_expr(s.value)
    else:
      _fail('StrLiteral: unexpected statement %s' % type(s).__name__, s)
  if default is None:
    _fail('StrLiteral: no final return')
  res = {}
  for engine, name in sorted(dialect_names().items()):
    kind = default
    for names, k in branches:
      if name in names:
        kind = k
        break
    if kind[0] == 'json' and not imports_json:
      _fail('expr_translate.py does not `import json`')
    res[name] = kind
  _check_flag_value_branch(ql)
  return res


def _check_flag_value_branch(ql):
  """The FlagValue branch must return self.StrLiteral({'the_string': self.flag_values[flag]})."""
  want = "self.StrLiteral({'the_string': self.flag_values[flag]})"
  hits = []
  for fn in ql.body:
    if not isinstance(fn, ast.FunctionDef):
      continue
    for n in ast.walk(fn):
      if isinstance(n, ast.If) and isinstance(n.test, ast.Compare) and len(n.test.comparators) == 1 \
          and isinstance(n.test.comparators[0], ast.Constant) and n.test.comparators[0].value == 'FlagValue' \
          and isinstance(n.test.ops[0], ast.Eq):
        hits.append(n)
  if len(hits) != 1:
    _fail('QL: expected exactly one `== \'FlagValue\'` branch, found %d' % len(hits))
  rets = [s for s in hits[0].body if isinstance(s, ast.Return)]
  if len(rets) != 1 or rets[0] is not hits[0].body[-1] or ast.unparse(rets[0].value) != want:
    _fail('QL FlagValue branch does not end with `return %s`' % want, hits[0])
  # flag = <the literal's the_string>
  assigns = [s for s in hits[0].body if isinstance(s, ast.Assign)]
  if len(assigns) != 1 or ast.unparse(assigns[0].targets[0]) != 'flag' or \
      not ast.unparse(assigns[0].value).endswith("['literal']['the_string']['the_string']"):
    _fail('QL FlagValue branch: `flag` is not read from the string literal argument', hits[0])


def coq_str(s):
  return '[' + '; '.join(str(b) for b in s.encode('utf-8')) + ']'


def coq_ident(name):
  ident = ''.join(ch if ch.isalnum() else '_' for ch in name)
  if not ident or not ident[0].isalpha():
    _fail('dialect name %r is not usable as an identifier' % name)
  return ident


def render(table):
  lines = [
      '(* GENERATED by translators/strlit.py from compiler/expr_translate.py (QL.StrLiteral) and',
      '   compiler/dialects.py -- do not edit.  One emit_kind per dialect Name(). *)',
      'From Coq Require Import List NArith.',
      'Import ListNotations.',
      'From LV Require Import Lex.StrLit.',
      'Open Scope N_scope.',
      '',
  ]
  for name in sorted(table):
    k = table[name]
    if k[0] == 'json':
      body = 'JsonDumps'
    else:
      steps = '; '.join('(%s, %s)' % (coq_str(a), coq_str(b)) for a, b in k[3])
      body = 'Wrap %s %s [%s]' % (coq_str(k[1]), coq_str(k[2]), steps)
    lines.append('Definition kind_%s : emit_kind := %s.' % (coq_ident(name), body))
  lines.append('')
  lines.append('Definition dialect_kinds : list (list N * emit_kind) := [')
  lines.append(';\n'.join('  (%s, kind_%s)' % (coq_str(n), coq_ident(n)) for n in sorted(table)))
  lines.append('].')
  lines.append('')
  return '\n'.join(lines)


def generate():
  """Returns the table; writes coq/gen/StrLitGen.v when it changed.  Raises TranslateError."""
  table = str_literal_table()
  coqrun.write_if_changed(OUT, render(table))
  return table


if __name__ == '__main__':
  import json
  print(json.dumps(generate(), indent=1, ensure_ascii=False))
