"""compiler/dialects.py + compiler/expr_translate.py (+ call sites in the compiler) -> coq/gen/DialectTables.v

Reads the sources of common.REPO with Python `ast` only (nothing is imported or executed) and FAILS
CLOSED: every method body / table must have exactly the syntactic shape understood here, otherwise
`TranslationError` is raised, which the check treats as a broken obligation.

Extracted (see coq/theories/Core/DialectSig.v for the record types):
  * per dialect class reachable from dialects.DIALECTS: Name, BuiltInFunctions, InfixOperators, UnnestPhrase,
    ArrayPhrase, GroupBySpecBy, IsPostgreSQLish, the signature (parameter counts) of every method (own or
    inherited from Dialect), the parameter list and the format strings of Subscript;
  * QL.BUILT_IN_FUNCTIONS, BUILT_IN_INFIX_OPERATORS, ANALYTIC_FUNCTIONS, the arity rule of
    BuiltInFunctionArityRange (the arity-2 list, 'If' -> 3), the bulk functions of
    common/data/processed_functions.py with their arity ranges;
  * every call `<x>.dialect.<Method>(...)` / `dialects.Get(..).<Method>(...)` in compiler/{expr_translate,
    rule_translate,universe}.py with its number of positional arguments;
  * the bodies of QL.Function, QL.Infix, QL.Subscript and the two instantiation sites of UnnestPhrase /
    ArrayPhrase are compared with the text the Coq model (Core/SqlText.v: inst_function, inst_infix, ...)
    was written against.
"""
import ast
import csv
import io
import os

from vlib import common, coqrun

OUT = os.path.join(common.COQ, 'gen', 'DialectTables.v')


class TranslationError(Exception):
  pass


def need(cond, msg):
  if not cond:
    raise TranslationError(msg)


def read(rel):
  path = os.path.join(common.REPO, rel)
  with open(path, encoding='utf-8') as f:
    src = f.read()
  return src, ast.parse(src, filename=path)


def strip_doc(body):
  body = list(body)
  if body and isinstance(body[0], ast.Expr) and isinstance(body[0].value, ast.Constant) \
      and isinstance(body[0].value.value, str):
    body = body[1:]
  body = [s for s in body if not isinstance(s, ast.Pass)]
  return body


def const_return(fn, typ, what):
  body = strip_doc(fn.body)
  need(len(body) == 1 and isinstance(body[0], ast.Return) and isinstance(body[0].value, ast.Constant)
       and isinstance(body[0].value.value, typ), '%s: expected a single `return <%s constant>`' % (what, typ.__name__))
  return body[0].value.value


def const_dict(node, what):
  need(isinstance(node, ast.Dict), '%s: expected a dict literal' % what)
  out = []
  for k, v in zip(node.keys, node.values):
    need(isinstance(k, ast.Constant) and isinstance(k.value, str), '%s: non-constant key' % what)
    need(isinstance(v, ast.Constant) and isinstance(v.value, str), '%s[%r]: value is not a string constant' % (
        what, getattr(k, 'value', None)))
    need(k.value not in [x for x, _ in out], '%s: duplicate key %r' % (what, k.value))
    out.append((k.value, v.value))
  return out


def dict_return(fn, what):
  body = strip_doc(fn.body)
  need(len(body) == 1 and isinstance(body[0], ast.Return), '%s: expected a single return' % what)
  return const_dict(body[0].value, what)


def signature(fn, what):
  a = fn.args
  need(a.vararg is None and a.kwarg is None and not a.kwonlyargs and not a.posonlyargs,
       '%s: *args/**kwargs/keyword-only parameters are not modelled' % what)
  names = [x.arg for x in a.args]
  need(names and names[0] == 'self', '%s: first parameter is not self' % what)
  n = len(names) - 1
  return names[1:], n - len(a.defaults), n


# ---- Subscript bodies -------------------------------------------------------------------------------
def fmt_return(stmt, params, escapes, what):
  """`return FMT % (a, b)` with a, b names of parameters or escaped locals."""
  need(isinstance(stmt, ast.Return) and isinstance(stmt.value, ast.BinOp) and isinstance(stmt.value.op, ast.Mod)
       and isinstance(stmt.value.left, ast.Constant) and isinstance(stmt.value.left.value, str),
       '%s: expected `return "<format>" %% (...)`' % what)
  right = stmt.value.right
  elts = right.elts if isinstance(right, ast.Tuple) else [right]
  names = []
  for e in elts:
    need(isinstance(e, ast.Name) and (e.id in params or e.id in escapes), '%s: format argument is not a parameter' % what)
    names.append(e.id)
  return stmt.value.left.value, names


def escape_assign(stmt, params, what):
  """`key = str(p).replace(c1, c2).replace(c3, c4)...`  ->  (key, p, [(c1, c2), (c3, c4)])."""
  need(isinstance(stmt, ast.Assign) and len(stmt.targets) == 1 and isinstance(stmt.targets[0], ast.Name),
       '%s: unexpected statement' % what)
  steps = []
  e = stmt.value
  while isinstance(e, ast.Call) and isinstance(e.func, ast.Attribute) and e.func.attr == 'replace':
    need(len(e.args) == 2 and not e.keywords and all(
        isinstance(x, ast.Constant) and isinstance(x.value, str) for x in e.args), '%s: replace() with non-constants' % what)
    steps.append((e.args[0].value, e.args[1].value))
    e = e.func.value
  need(isinstance(e, ast.Call) and isinstance(e.func, ast.Name) and e.func.id == 'str' and len(e.args) == 1
       and isinstance(e.args[0], ast.Name) and e.args[0].id in params, '%s: expected str(<param>).replace(...)' % what)
  return stmt.targets[0].id, e.args[0].id, list(reversed(steps))


def subscript_formats(fn, params, what):
  body = strip_doc(fn.body)
  escapes = {}
  out = []

  def straight(stmts, cond):
    stmts = list(stmts)
    need(stmts, '%s: empty branch' % what)
    for s in stmts[:-1]:
      k, p, steps = escape_assign(s, params, what)
      escapes[k] = (p, steps)
    fmt, names = fmt_return(stmts[-1], params, escapes, what)
    out.append((cond, fmt, names))

  if body and isinstance(body[0], ast.If):
    test = body[0].test
    need(isinstance(test, ast.Name) and test.id in params and test.id == 'record_is_table',
         '%s: only `if record_is_table:` is understood' % what)
    straight(body[0].body, 'table')
    if body[0].orelse:
      need(len(body) == 1, '%s: statements after if/else' % what)
      straight(body[0].orelse, 'value')
    else:
      straight(body[1:], 'value')
  else:
    straight(body, 'any')
  return out, escapes


# ---- expected texts of the instantiation code (what Core/SqlText.v models) --------------------------
EXPECTED = {
    'Function': '''def Function(self, f, args):
    args_list = [None] * len(args)
    for (k, v) in args.items():
        args_list[k] = str(v)
    if '%s' in f:
        return f % ', '.join(args_list)
    else:
        return f.format(*args_list)''',
    'Infix': '''def Infix(self, op, args):
    if '%s' in op:
        return op % (args['left'], args['right'])
    return op.format(**args)''',
    'Subscript': '''def Subscript(self, record, subscript, record_is_table):
    if isinstance(subscript, int):
        subscript = 'col%d' % subscript
    return self.dialect.Subscript(record, subscript, record_is_table)''',
    'BuiltInFunctionArityRange': '''def BuiltInFunctionArityRange(self, f):
    assert f in self.built_in_functions
    if f in self.BUILT_IN_FUNCTIONS:
        if f == 'If':
            return (3, 3)
        arity_2_functions = ARITY2
        if f in arity_2_functions:
            return (2, 2)
        return (1, 1)
    else:
        assert f in self.bulk_functions
        return self.bulk_function_arity_range[f]''',
    'InstallBulkFunctionsOfStandardSQL': '''def InstallBulkFunctionsOfStandardSQL(cls):
    if cls.BULK_FUNCTIONS:
        return

    def CamelCase(s):
        s = s.replace('.', '_')
        return ''.join((p[0].upper() + p[1:] for p in s.split('_')))
    reader = processed_functions.GetCsv()
    header = next(reader)
    bulk_functions = {}
    bulk_functions_arity_range = {}
    for row in reader:
        row = dict(list(zip(header, row)))
        if row['function'][0] == '$':
            continue
        function_name = CamelCase(row['function'])
        bulk_functions[function_name] = '%s(%s)' % (row['sql_function'], '%s')
        bulk_functions_arity_range[function_name] = (int(row['min_args']), float('inf') if row['has_repeated_args'] == '1' else int(row['max_args']))
    cls.BULK_FUNCTIONS = bulk_functions
    cls.BULK_FUNCTIONS_ARITY_RANGE = bulk_functions_arity_range''',
    'GetCsv': '''def GetCsv():
    return csv.reader(io.StringIO(CSV_DATA))''',
}
# fragments that must occur literally (after ast.unparse) in the code that uses the phrases
EXPECTED_FRAGMENTS = {
    'compiler/rule_translate.py': ['subquery_encoder.execution.dialect.UnnestPhrase().format(ql.ConvertToSql(the_list), '
                                   'ql.ConvertToSql(element))',
                                   "subquery_encoder.execution.dialect.Subscript(ql.ConvertToSql(v), '*', True)"],
    'compiler/expr_translate.py': ['array_phrase = self.dialect.ArrayPhrase()', 'array_phrase % internals',
                                   "self.built_in_functions = copy.deepcopy(self.bulk_functions)",
                                   "self.built_in_functions.update(self.BUILT_IN_FUNCTIONS)",
                                   "self.built_in_functions.update(self.dialect.BuiltInFunctions())",
                                   "self.built_in_infix_operators = copy.deepcopy(self.BUILT_IN_INFIX_OPERATORS)",
                                   "self.built_in_infix_operators.update(self.dialect.InfixOperators())",
                                   "result = self.Infix(sql_op, arguments)\n                    result = '(' + result + ')'",
                                   "return self.ANALYTIC_FUNCTIONS[call['predicate_name']].format(aggregant, group_by, order_by)",
                                   "return self.ANALYTIC_FUNCTIONS[call['predicate_name']].format(aggregant, group_by, order_by, "
                                   "window_size)",
                                   "is_window = call['predicate_name'].startswith('Window')"],
}


def strip_docstring_fn(fn):
  fn = ast.parse(ast.unparse(fn)).body[0]
  fn.body = strip_doc(fn.body) or [ast.Pass()]
  fn.decorator_list = []
  return ast.unparse(fn)


def same_code(a, b):
  return ast.dump(ast.parse(a)) == ast.dump(ast.parse(b))


def class_of(tree, name, what):
  for n in tree.body:
    if isinstance(n, ast.ClassDef) and n.name == name:
      return n
  raise TranslationError('%s: class %s not found' % (what, name))


def methods_of(cls):
  return {n.name: n for n in cls.body if isinstance(n, ast.FunctionDef)}


def class_attr_dict(cls, name, what):
  for n in cls.body:
    if isinstance(n, ast.Assign) and len(n.targets) == 1 and isinstance(n.targets[0], ast.Name) and n.targets[0].id == name:
      return const_dict(n.value, what)
  raise TranslationError('%s not found' % what)


# ---- extraction --------------------------------------------------------------------------------------
def extract():
  _, dtree = read('compiler/dialects.py')
  base = class_of(dtree, 'Dialect', 'dialects.py')
  need([b.id for b in base.bases if isinstance(b, ast.Name)] == ['object'], 'Dialect: unexpected bases')
  base_methods = methods_of(base)
  registry = None
  for n in dtree.body:
    if isinstance(n, ast.Assign) and len(n.targets) == 1 and isinstance(n.targets[0], ast.Name) \
        and n.targets[0].id == 'DIALECTS':
      need(isinstance(n.value, ast.Dict), 'DIALECTS is not a dict literal')
      registry = []
      for k, v in zip(n.value.keys, n.value.values):
        need(isinstance(k, ast.Constant) and isinstance(k.value, str) and isinstance(v, ast.Name), 'DIALECTS entry')
        registry.append((k.value, v.id))
  need(registry, 'DIALECTS not found')
  get = [n for n in dtree.body if isinstance(n, ast.FunctionDef) and n.name == 'Get']
  need(len(get) == 1 and ast.unparse(get[0]).strip() == 'def Get(engine):\n    return DIALECTS[engine]()', 'dialects.Get changed')

  dialects = []
  for key, cname in registry:
    cls = class_of(dtree, cname, 'dialects.py')
    need([b.id for b in cls.bases if isinstance(b, ast.Name)] == ['Dialect'] and len(cls.bases) == 1,
         '%s: base class is not Dialect' % cname)
    for n in cls.body:
      need(isinstance(n, (ast.FunctionDef, ast.Expr, ast.Pass)), '%s: unexpected class-level statement' % cname)
    own = methods_of(cls)
    ms = dict(base_methods)
    ms.update(own)
    w = lambda m: '%s.%s' % (cname, m)
    sigs = []
    for mname, fn in sorted(ms.items()):
      need(not fn.decorator_list, '%s: decorators are not modelled' % w(mname))
      _, lo, hi = signature(fn, w(mname))
      sigs.append((mname, lo, hi))
    d = {'key': key, 'class': cname, 'methods': sigs}
    for field, mname, typ in (('name', 'Name', str), ('unnest', 'UnnestPhrase', str), ('array', 'ArrayPhrase', str),
                              ('groupby', 'GroupBySpecBy', str), ('psqlish', 'IsPostgreSQLish', bool)):
      need(mname in ms, '%s is missing' % w(mname))
      d[field] = const_return(ms[mname], typ, w(mname))
    for field, mname in (('functions', 'BuiltInFunctions'), ('infix', 'InfixOperators')):
      need(mname in ms, '%s is missing' % w(mname))
      d[field] = dict_return(ms[mname], w(mname))
    need('Subscript' in ms, '%s is missing' % w('Subscript'))
    params, _, _ = signature(ms['Subscript'], w('Subscript'))
    d['subscript_params'] = params
    d['subscript'], d['escapes'] = subscript_formats(ms['Subscript'], params, w('Subscript'))
    dialects.append(d)

  esrc, etree = read('compiler/expr_translate.py')
  ql = class_of(etree, 'QL', 'expr_translate.py')
  qm = methods_of(ql)
  tables = {
      'ql_functions': class_attr_dict(ql, 'BUILT_IN_FUNCTIONS', 'QL.BUILT_IN_FUNCTIONS'),
      'ql_infix': class_attr_dict(ql, 'BUILT_IN_INFIX_OPERATORS', 'QL.BUILT_IN_INFIX_OPERATORS'),
      'ql_analytic': class_attr_dict(ql, 'ANALYTIC_FUNCTIONS', 'QL.ANALYTIC_FUNCTIONS'),
  }
  # arity rule
  fn = qm.get('BuiltInFunctionArityRange')
  need(fn is not None, 'QL.BuiltInFunctionArityRange missing')
  arity2 = None
  for n in ast.walk(fn):
    if isinstance(n, ast.Assign) and isinstance(n.targets[0], ast.Name) and n.targets[0].id == 'arity_2_functions':
      need(isinstance(n.value, ast.List) and all(isinstance(e, ast.Constant) and isinstance(e.value, str)
                                                  for e in n.value.elts), 'arity_2_functions is not a list of strings')
      arity2 = [e.value for e in n.value.elts]
      n.value = ast.Name(id='ARITY2', ctx=ast.Load())
  need(arity2 is not None, 'arity_2_functions not found')
  for name in ('Function', 'Infix', 'Subscript', 'BuiltInFunctionArityRange', 'InstallBulkFunctionsOfStandardSQL'):
    need(name in qm, 'QL.%s missing' % name)
    got = strip_docstring_fn(qm[name])
    need(same_code(got, EXPECTED[name]), 'QL.%s changed; the Coq model (Core/SqlText.v) was written against\n%s\nnow:\n%s' % (
        name, EXPECTED[name], got))
  tables['arity2'] = arity2

  # bulk functions
  _, ptree = read('common/data/processed_functions.py')
  csv_data = None
  for n in ptree.body:
    if isinstance(n, ast.Assign) and isinstance(n.targets[0], ast.Name) and n.targets[0].id == 'CSV_DATA':
      need(isinstance(n.value, ast.Constant) and isinstance(n.value.value, str), 'CSV_DATA is not a string constant')
      csv_data = n.value.value
    if isinstance(n, ast.FunctionDef) and n.name == 'GetCsv':
      need(same_code(ast.unparse(n), EXPECTED['GetCsv']), 'processed_functions.GetCsv changed')
  need(csv_data is not None, 'CSV_DATA not found')
  reader = csv.reader(io.StringIO(csv_data))
  header = next(reader)
  bulk = {}
  for row in reader:
    row = dict(zip(header, row))
    if row['function'][0] == '$':
      continue
    s = row['function'].replace('.', '_')
    fname = ''.join(p[0].upper() + p[1:] for p in s.split('_'))
    bulk[fname] = ('%s(%s)' % (row['sql_function'], '%s'), int(row['min_args']),
                   None if row['has_repeated_args'] == '1' else int(row['max_args']))
  tables['bulk'] = sorted((k,) + v for k, v in bulk.items())

  # call sites + literal fragments
  sites = []
  for rel in ('compiler/expr_translate.py', 'compiler/rule_translate.py', 'compiler/universe.py'):
    _, tree = read(rel)
    text = ast.unparse(tree)
    for frag in EXPECTED_FRAGMENTS.get(rel, []):
      need(frag in text, '%s: expected code fragment not found: %s' % (rel, frag))
    for n in ast.walk(tree):
      if isinstance(n, ast.Call) and isinstance(n.func, ast.Attribute):
        recv = n.func.value
        is_dialect = (isinstance(recv, ast.Attribute) and recv.attr == 'dialect') or (
            isinstance(recv, ast.Call) and isinstance(recv.func, ast.Attribute) and recv.func.attr == 'Get'
            and isinstance(recv.func.value, ast.Name) and recv.func.value.id == 'dialects')
        if is_dialect:
          need(not n.keywords and not any(isinstance(a, ast.Starred) for a in n.args),
               '%s:%d keyword/star arguments in a dialect call are not modelled' % (rel, n.lineno))
          sites.append(('%s:%d' % (rel, n.lineno), n.func.attr, len(n.args)))
  need(any(m == 'Subscript' for _, m, _ in sites), 'no call site of dialect.Subscript found')
  tables['sites'] = sorted(sites)
  return dialects, tables


# ---- Coq output ----------------------------------------------------------------------------------------
def cs(s):
  for ch in s:
    need(ch == '\n' or ch == '\t' or 32 <= ord(ch) < 127, 'non-ASCII character %r in a template is not modelled' % ch)
  return '"%s"' % s.replace('"', '""')


def clist(items, indent='    '):
  if not items:
    return '[]'
  return '[\n' + ';\n'.join(indent + x for x in items) + ']'


def pairs(kvs, indent='    '):
  return clist(['(%s, %s)' % (cs(k), cs(v)) for k, v in kvs], indent)


def render(dialects, tables):
  o = ['(* GENERATED by translators/dialect_tables.py from compiler/dialects.py, compiler/expr_translate.py,',
       '   common/data/processed_functions.py and the dialect call sites of the compiler.  DO NOT EDIT. *)',
       'From Coq Require Import List String NArith.',
       'Import ListNotations.',
       'From LV Require Import Core.DialectSig.',
       'Open Scope string_scope.', '']
  for d in dialects:
    subs = []
    for cond, fmt, names in d['subscript']:
      esc = ['(%s, (%s, %s))' % (cs(k), cs(d['escapes'][k][0]),
                                 clist(['(%s, %s)' % (cs(a), cs(b)) for a, b in d['escapes'][k][1]], '        '))
             for k in names if k in d['escapes']]
      subs.append('{| sf_cond := %s; sf_format := %s; sf_args := [%s]; sf_escapes := %s |}' % (
          cs(cond), cs(fmt), '; '.join(cs(x) for x in names), clist(esc, '      ')))
    o.append('Definition dialect_%s : dialect := {|' % d['key'])
    o.append('  d_key := %s; d_class := %s; d_name := %s;' % (cs(d['key']), cs(d['class']), cs(d['name'])))
    o.append('  d_functions := %s;' % pairs(d['functions']))
    o.append('  d_infix := %s;' % pairs(d['infix']))
    o.append('  d_unnest := %s; d_array := %s; d_groupby := %s; d_psqlish := %s;' % (
        cs(d['unnest']), cs(d['array']), cs(d['groupby']), 'true' if d['psqlish'] else 'false'))
    o.append('  d_methods := %s;' % clist(['{| ms_name := %s; ms_min := %d; ms_max := %d |}' % (cs(m), lo, hi)
                                          for m, lo, hi in d['methods']]))
    o.append('  d_subscript_params := [%s];' % '; '.join(cs(x) for x in d['subscript_params']))
    o.append('  d_subscript := %s |}.' % clist(subs))
    o.append('')
  o.append('Definition dialects : list dialect := [%s].' % '; '.join('dialect_%s' % d['key'] for d in dialects))
  o.append('')
  o.append('Definition ql_functions : list (string * string) := %s.' % pairs(tables['ql_functions'], '  '))
  o.append('Definition ql_infix : list (string * string) := %s.' % pairs(tables['ql_infix'], '  '))
  o.append('Definition ql_analytic : list (string * string) := %s.' % pairs(tables['ql_analytic'], '  '))
  o.append('Definition ql_arity2 : list string := [%s].' % '; '.join(cs(x) for x in tables['arity2']))
  o.append('Definition bulk_functions : list bulk_function := %s.' % clist(
      ['{| bf_name := %s; bf_template := %s; bf_min := %d; bf_max := %s |}' % (
          cs(n), cs(t), lo, 'None' if hi is None else 'Some %d' % hi) for n, t, lo, hi in tables['bulk']], '  '))
  o.append('Definition call_sites : list call_site := %s.' % clist(
      ['{| cs_where := %s; cs_method := %s; cs_nargs := %d |}' % (cs(w), cs(m), n) for w, m, n in tables['sites']], '  '))
  o.append('')
  return '\n'.join(o)


def generate():
  """Returns (ok, message).  On failure a stub that does not compile is NOT written; the old file stays
  and the caller reports the broken obligation."""
  try:
    dialects, tables = extract()
    text = render(dialects, tables)
  except (TranslationError, SyntaxError, OSError) as e:
    return False, '%s: %s' % (type(e).__name__, e)
  coqrun.write_if_changed(OUT, text)
  return True, '%d dialects, %d bulk functions, %d call sites' % (len(dialects), len(tables['bulk']), len(tables['sites']))


if __name__ == '__main__':
  print(generate())
