"""Regenerates coq/gen/RecursionParams.v from the current source (FAIL CLOSED).

Extracted, each from exactly one syntactic shape (anything else raises TranslationError):
  compiler/dialect_libraries/recursion_library.py
    GetRecursionFunctor:              first line defines index 0 from nil; `for i in range(<E>)` defines <i + 1> from <i>;
                                      the result is index <E'>
    GetFlatRecursionFunctor:          `for i in range(<E>)`; `if i > 0: v = f'{a}_fr{<prev>}'` else nil; result index <E'>
    GetFlatIterativeRecursionFunctor: `inset = <c>`; `for i in range(<E>)`; `if i > 0` / previous index; the @Ground test
                                      `i != <E1>` and the shared table `{i - 2}`; the two iterated indices; the result index;
                                      the repetitions formula inside the @Iteration f-string
  compiler/functors.py
    UnfoldRecursions:                 `ignition = len(my_cover[p]) + <c>`; `if ignition % 2 == depth % 2: ignition += <c>`
    RecursiveAnalysis:                `... .get('1', default_depth) > <threshold>`
  compiler/universe.py
    LogicaProgram.UnfoldRecursion:    default_depth = 8, and 32 under duckdb
Arithmetic is translated to Z (`//` is Z.div, `%` is Z.modulo: both floor, as in Python for a positive divisor).
"""
import ast
import os

from vlib import common, coqrun


class TranslationError(Exception):
  pass


def need(cond, what):
  if not cond:
    raise TranslationError(what)


def src(rel):
  with open(os.path.join(common.REPO, rel)) as f:
    return ast.parse(f.read())


def func(tree, name, cls=None):
  for node in ast.walk(tree):
    if cls is not None:
      if isinstance(node, ast.ClassDef) and node.name == cls:
        for n in node.body:
          if isinstance(n, ast.FunctionDef) and n.name == name:
            return n
    elif isinstance(node, ast.FunctionDef) and node.name == name:
      return node
  raise TranslationError('function %s not found' % name)


def zexpr(e, names):
  """Python arithmetic expression -> Coq Z expression.  names: python name -> coq variable."""
  if isinstance(e, ast.Constant) and isinstance(e.value, int) and not isinstance(e.value, bool):
    return '%d' % e.value if e.value >= 0 else '(%d)' % e.value
  if isinstance(e, ast.Name):
    need(e.id in names, 'unexpected variable %s' % e.id)
    return names[e.id]
  if isinstance(e, ast.BinOp):
    ops = {ast.Add: '+', ast.Sub: '-', ast.FloorDiv: '/', ast.Mod: 'mod', ast.Mult: '*'}
    need(type(e.op) in ops, 'unexpected operator %s' % ast.dump(e.op))
    return '(%s %s %s)' % (zexpr(e.left, names), ops[type(e.op)], zexpr(e.right, names))
  if isinstance(e, ast.Call) and isinstance(e.func, ast.Name) and e.func.id == 'len' and 'len' in names:
    return names['len']
  raise TranslationError('unexpected expression %s' % ast.dump(e))


def the_for(fn, var='i'):
  loops = [n for n in ast.walk(fn) if isinstance(n, ast.For) and isinstance(n.target, ast.Name) and n.target.id == var]
  need(len(loops) == 1, '%s: expected exactly one `for %s`' % (fn.name, var))
  lp = loops[0]
  need(isinstance(lp.iter, ast.Call) and isinstance(lp.iter.func, ast.Name) and lp.iter.func.id == 'range'
       and len(lp.iter.args) == 1, '%s: loop is not range(<one argument>)' % fn.name)
  return lp, lp.iter.args[0]


def fstring_fields(node):
  """JoinedStr -> list of ('s', text) / ('e', expr)."""
  need(isinstance(node, ast.JoinedStr), 'expected an f-string')
  out = []
  for v in node.values:
    if isinstance(v, ast.Constant):
      out.append(('s', v.value))
    else:
      need(isinstance(v, ast.FormattedValue), 'unexpected f-string part')
      out.append(('e', v.value))
  return out


def field_after(fields, text, fn):
  """The expression that follows a literal part ending with `text`."""
  for i, (k, v) in enumerate(fields):
    if k == 's' and v.endswith(text) and i + 1 < len(fields) and fields[i + 1][0] == 'e':
      return fields[i + 1][1]
  raise TranslationError('%s: no field after %r' % (fn, text))


def prev_index(loop, suffix, fn):
  """`if i > 0: v = f'{a}<suffix>{<prev>}'` inside the loop; returns (<cond> as Coq bool on i, <prev>)."""
  ifs = [n for n in ast.walk(loop) if isinstance(n, ast.If) and isinstance(n.test, ast.Compare)
         and isinstance(n.test.left, ast.Name) and n.test.left.id == 'i' and len(n.test.ops) == 1
         and isinstance(n.test.ops[0], ast.Gt)]
  need(len(ifs) == 1, '%s: expected one `if i > <c>`' % fn)
  test = ifs[0].test
  bound = zexpr(test.comparators[0], {})
  need(len(ifs[0].body) == 1 and isinstance(ifs[0].body[0], ast.Assign) and not ifs[0].orelse,
       '%s: unexpected body of `if i > 0`' % fn)
  fields = fstring_fields(ifs[0].body[0].value)
  e = field_after(fields, suffix, fn)
  # the default assigned before the `if` must be nil
  nil = [n for n in ast.walk(loop) if isinstance(n, ast.Assign) and isinstance(n.value, ast.Constant)
         and n.value.value == 'nil']
  need(len(nil) == 1, '%s: generation 0 does not read nil' % fn)
  return '(%s <? i)' % bound, zexpr(e, {'i': 'i'})


def all_fstrings(fn):
  return [n for n in ast.walk(fn) if isinstance(n, ast.JoinedStr)]


def translate():
  lib = src('compiler/dialect_libraries/recursion_library.py')
  out = []
  emit = out.append

  # ---- vertical chain ----
  fn = func(lib, 'GetRecursionFunctor')
  first = [n for n in fn.body if isinstance(n, ast.Assign) and isinstance(n.value, ast.List)]
  need(len(first) == 1 and len(first[0].value.elts) == 1 and isinstance(first[0].value.elts[0], ast.Constant)
       and first[0].value.elts[0].value == 'P_r0 := P_recursive_head(P_recursive: nil);',
       'GetRecursionFunctor: unexpected first line')
  lp, rng = the_for(fn)
  calls = [n for n in ast.walk(lp) if isinstance(n, ast.Call) and isinstance(n.func, ast.Attribute)
           and n.func.attr == 'format']
  need(len(calls) == 1 and isinstance(calls[0].func.value, ast.Constant)
       and calls[0].func.value.value == 'P_r{1} := P_recursive_head(P_recursive: P_r{0});'
       and len(calls[0].args) == 2, 'GetRecursionFunctor: unexpected loop body')
  emit('Definition vertical_range (depth : Z) : Z := %s.' % zexpr(rng, {'depth': 'depth'}))
  emit('Definition vertical_uses (i : Z) : Z := %s.' % zexpr(calls[0].args[0], {'i': 'i'}))
  emit('Definition vertical_defines (i : Z) : Z := %s.' % zexpr(calls[0].args[1], {'i': 'i'}))
  last = [n for n in ast.walk(fn) if isinstance(n, ast.Call) and isinstance(n.func, ast.Attribute)
          and n.func.attr == 'format' and isinstance(n.func.value, ast.Constant)
          and n.func.value.value == 'P := P_r{0}();']
  need(len(last) == 1 and len(last[0].args) == 1, 'GetRecursionFunctor: unexpected result line')
  emit('Definition vertical_result (depth : Z) : Z := %s.' % zexpr(last[0].args[0], {'depth': 'depth'}))

  # ---- flat chain ----
  fn = func(lib, 'GetFlatRecursionFunctor')
  lp, rng = the_for(fn)
  cond, prev = prev_index(lp, '_fr', 'GetFlatRecursionFunctor')
  emit('Definition flat_range (depth : Z) : Z := %s.' % zexpr(rng, {'depth': 'depth'}))
  emit('Definition flat_has_prev (i : Z) : bool := %s.' % cond)
  emit('Definition flat_prev (i : Z) : Z := %s.' % prev)
  res = [f for f in all_fstrings(fn) if any(k == 's' and v.startswith(' := ') for k, v in fstring_fields(f))
         and any(k == 's' and v == '();' for k, v in fstring_fields(f))]
  need(len(res) == 1, 'GetFlatRecursionFunctor: unexpected result line')
  emit('Definition flat_result (depth : Z) : Z := %s.' %
       zexpr(field_after(fstring_fields(res[0]), '_fr', 'flat result'), {'depth': 'depth'}))

  # ---- iterative plan ----
  fn = func(lib, 'GetFlatIterativeRecursionFunctor')
  inset = [n for n in fn.body if isinstance(n, ast.Assign) and len(n.targets) == 1
           and isinstance(n.targets[0], ast.Name) and n.targets[0].id == 'inset']
  need(len(inset) == 1, 'iterative: inset')
  emit('Definition iter_inset : Z := %s.' % zexpr(inset[0].value, {}))
  names = {'ignition_steps': 'g', 'inset': 'iter_inset', 'depth': 'depth', 'i': 'i'}
  lp, rng = the_for(fn)
  cond, prev = prev_index(lp, '_ifr', 'GetFlatIterativeRecursionFunctor')
  emit('Definition iter_range (g : Z) : Z := %s.' % zexpr(rng, names))
  emit('Definition iter_has_prev (i : Z) : bool := %s.' % cond)
  emit('Definition iter_prev (i : Z) : Z := %s.' % prev)
  gr = [n for n in ast.walk(lp) if isinstance(n, ast.If) and isinstance(n.test, ast.Compare)
        and isinstance(n.test.left, ast.Name) and n.test.left.id == 'i' and isinstance(n.test.ops[0], ast.NotEq)]
  need(len(gr) == 1 and len(gr[0].orelse) == 1, 'iterative: @Ground test')
  emit('Definition iter_own_table (g i : Z) : bool := negb (i =? %s).' % zexpr(gr[0].test.comparators[0], names))
  own = [f for f in ast.walk(gr[0].body[0]) if isinstance(f, ast.JoinedStr)]
  shared = [f for f in ast.walk(gr[0].orelse[0]) if isinstance(f, ast.JoinedStr)]
  need(len(own) == 1 and len(shared) == 1, 'iterative: @Ground lines')
  fo, fs = fstring_fields(own[0]), fstring_fields(shared[0])
  need(fo[0] == ('s', '@Ground(') and fs[0] == ('s', '@Ground('), 'iterative: @Ground lines')
  need(len([1 for k, v in fo if k == 's' and v == '_ifr']) == 1, 'iterative: own table line')
  need(len([1 for k, v in fs if k == 's' and (v == '_ifr' or v.endswith('_ifr'))]) == 2, 'iterative: shared table line')
  second = [i for i, (k, v) in enumerate(fs) if k == 's' and v.endswith('_ifr')][1]
  emit('Definition iter_shared_table (i : Z) : Z := %s.' % zexpr(fs[second + 1][1], names))
  halves = {}
  for n in ast.walk(fn):
    if isinstance(n, ast.AugAssign) and isinstance(n.target, ast.Name) and n.target.id.startswith('iterate_over_'):
      need(isinstance(n.value, ast.List) and len(n.value.elts) == 1, 'iterative: halves')
      halves[n.target.id] = zexpr(field_after(fstring_fields(n.value.elts[0]), '_ifr', 'halves'), names)
  need(sorted(halves) == ['iterate_over_lower_half', 'iterate_over_upper_half'], 'iterative: halves')
  emit('Definition iter_upper (g : Z) : Z := %s.' % halves['iterate_over_upper_half'])
  emit('Definition iter_lower (g : Z) : Z := %s.' % halves['iterate_over_lower_half'])
  order = [n for n in ast.walk(fn) if isinstance(n, ast.Assign) and isinstance(n.targets[0], ast.Name)
           and n.targets[0].id == 'iterate_over']
  need(len(order) == 1 and isinstance(order[0].value, ast.BinOp) and isinstance(order[0].value.op, ast.Add)
       and order[0].value.left.id == 'iterate_over_upper_half'
       and order[0].value.right.id == 'iterate_over_lower_half', 'iterative: order of the halves')
  res = [f for f in all_fstrings(fn) if any(k == 's' and v.startswith(' := ') for k, v in fstring_fields(f))
         and any(k == 's' and v == '();' for k, v in fstring_fields(f))]
  need(len(res) == 1, 'iterative: result line')
  emit('Definition iter_result (g : Z) : Z := %s.' %
       zexpr(field_after(fstring_fields(res[0]), '_ifr', 'iter result'), names))
  it = [f for f in all_fstrings(fn) if fstring_fields(f)[0] == ('s', '@Iteration(')]
  need(len(it) == 1, 'iterative: @Iteration line')
  emit('Definition repetitions (depth g : Z) : Z := %s.' %
       zexpr(field_after(fstring_fields(it[0]), 'repetitions: ', '@Iteration'), names))

  # ---- functors.py ----
  ft = src('compiler/functors.py')
  fn = func(ft, 'UnfoldRecursions', cls='Functors')
  ig = [n for n in ast.walk(fn) if isinstance(n, ast.Assign) and isinstance(n.targets[0], ast.Name)
        and n.targets[0].id == 'ignition']
  need(len(ig) == 1, 'UnfoldRecursions: ignition')
  emit('Definition ignition_base (cover : Z) : Z := %s.' % zexpr(ig[0].value, {'len': 'cover'}))
  bump = [n for n in ast.walk(fn) if isinstance(n, ast.If) and isinstance(n.test, ast.Compare)
          and isinstance(n.test.ops[0], ast.Eq) and isinstance(n.test.left, ast.BinOp)
          and isinstance(n.test.left.left, ast.Name) and n.test.left.left.id == 'ignition']
  need(len(bump) == 1 and len(bump[0].body) == 1 and isinstance(bump[0].body[0], ast.AugAssign)
       and isinstance(bump[0].body[0].op, ast.Add) and not bump[0].orelse, 'UnfoldRecursions: parity rule')
  nm = {'ignition': 'g', 'depth': 'depth'}
  emit('Definition ignition_bump (g depth : Z) : bool := (%s =? %s).' %
       (zexpr(bump[0].test.left, nm), zexpr(bump[0].test.comparators[0], nm)))
  emit('Definition ignition_bump_by : Z := %s.' % zexpr(bump[0].body[0].value, {}))
  kw = [n for n in ast.walk(fn) if isinstance(n, ast.keyword) and n.arg == 'ignition_steps']
  need(len(kw) == 1 and isinstance(kw[0].value, ast.Call) and len(kw[0].value.args) == 2
       and isinstance(kw[0].value.args[0], ast.Constant) and kw[0].value.args[0].value == 'ignition'
       and isinstance(kw[0].value.args[1], ast.Name) and kw[0].value.args[1].id == 'ignition',
       'UnfoldRecursions: ignition_steps argument')
  fn = func(ft, 'RecursiveAnalysis', cls='Functors')
  th = [n for n in ast.walk(fn) if isinstance(n, ast.Compare) and isinstance(n.ops[0], ast.Gt)
        and isinstance(n.left, ast.Call) and isinstance(n.left.func, ast.Attribute) and n.left.func.attr == 'get'
        and len(n.left.args) == 2 and isinstance(n.left.args[0], ast.Constant) and n.left.args[0].value == '1']
  need(len(th) == 1, 'RecursiveAnalysis: threshold')
  emit('Definition iterative_threshold : Z := %s.' % zexpr(th[0].comparators[0], {}))

  # ---- universe.py ----
  un = src('compiler/universe.py')
  fn = func(un, 'UnfoldRecursion', cls='LogicaProgram')
  dd = [n for n in ast.walk(fn) if isinstance(n, ast.Assign) and isinstance(n.targets[0], ast.Name)
        and n.targets[0].id == 'default_depth']
  need(len(dd) == 2, 'UnfoldRecursion: default depths')
  top = [n for n in fn.body if n in dd]
  need(len(top) == 1, 'UnfoldRecursion: default depth')
  other = [n for n in dd if n not in top]
  emit('Definition default_depth : Z := %s.' % zexpr(top[0].value, {}))
  emit('Definition default_depth_duckdb : Z := %s.' % zexpr(other[0].value, {}))
  return out


def generate():
  """Writes coq/gen/RecursionParams.v; returns (ok, message)."""
  path = os.path.join(common.COQ, 'gen', 'RecursionParams.v')
  try:
    defs = translate()
  except (TranslationError, AttributeError, IndexError, KeyError, SyntaxError, OSError) as e:
    # fail closed: the generated file states the failure, so everything depending on it stops checking
    coqrun.write_if_changed(path, '(* GENERATION FAILED: %s *)\nDefinition generation_failed : False := tt.\n' %
                            str(e).replace('*)', '* )'))
    return False, 'translation failed: %s' % e
  text = ('(* GENERATED by translators/recursion_params.py from compiler/dialect_libraries/recursion_library.py,\n'
          '   compiler/functors.py, compiler/universe.py.  Do not edit. *)\n'
          'From Coq Require Import ZArith Bool.\nOpen Scope Z_scope.\n\n' + '\n'.join(defs) + '\n')
  coqrun.write_if_changed(path, text)
  return True, ''


if __name__ == '__main__':
  print(generate())
  print(open(os.path.join(common.COQ, 'gen', 'RecursionParams.v')).read())
