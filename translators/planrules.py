"""translators/planrules.py — regenerates coq/gen/PlanRules.v from compiler/universe.py.

Reads the *current* source of `Annotations.LimitClause`, `Annotations.OrderByClause`,
`Annotations.OkInjection` (small decision functions) and the list of direction words of
`LogicaProgram.CheckOrderByClause` with Python `ast` and translates their `if`/`return`
structure into Gallina over the abstract annotation record `LV.Exec.PyVal.Ann`.

FAIL CLOSED: exactly the syntactic shapes below are accepted; anything else raises
`TranslationError` and `generate()` then writes a PlanRules.v that does not compile, so the
obligations that depend on it count as broken.

Accepted statements: docstring; `x = <expr>`; `x = []`; `x.append(<expr>)`; `if/else` whose
branches all return (or `if` that returns, followed by the rest of the block);
`for i in range(len(L) - 1): [if c: R.append(e1) else: R.append(e2)]` (adjacent-pairs loop,
`L[i]`/`L[i+1]` only); `return <expr>`.
Accepted expressions: string/int/bool constants; local names; `self.<Accessor>(predicate_name)`;
`'..%d..' % e`; `a + b` on strings / string lists; `'sep'.join(e)`; `L[-1]`; `or`/`and`/`not`;
`==`/`!=` on strings; `is None`/`is not None`; comparisons of ints.
"""
import ast
import hashlib
import os

from vlib import common, coqrun

OUT = os.path.join(common.COQ, 'gen', 'PlanRules.v')

ACCESSORS = {
    'OrderBy': ('optlist', 'order_by'),
    'LimitOf': ('optZ', 'limit_of'),
    'Ground': ('bool', 'ground'),
    'NoInject': ('bool', 'no_inject'),
    'ForceWith': ('bool', 'force_with'),
    'ForceNoWith': ('bool', 'force_nowith'),
}

TARGETS = [  # (python method, coq name, return type)
    ('LimitClause', 'limit_clause', 'str'),
    ('OrderByClause', 'orderby_clause', 'str'),
    ('OkInjection', 'ok_injection', 'bool'),
]
COQ_TYPE = {'str': 'string', 'bool': 'bool'}


class TranslationError(Exception):
  pass


def err(node, msg):
  raise TranslationError('%s (line %s: %s)' % (msg, getattr(node, 'lineno', '?'),
                                                ast.dump(node)[:200] if isinstance(node, ast.AST) else node))


def coq_str(s):
  for ch in s:
    if ord(ch) < 32 or ord(ch) > 126:
      raise TranslationError('non printable-ASCII character in string constant %r' % s)
  return '"%s"' % s.replace('"', '""')


class Fn:
  """Translation of one method body."""

  def __init__(self, fdef):
    self.fdef = fdef
    args = [a.arg for a in fdef.args.args]
    if args != ['self', 'predicate_name'] or fdef.args.vararg or fdef.args.kwarg or fdef.args.kwonlyargs \
        or fdef.args.defaults or fdef.decorator_list:
      err(fdef, 'unexpected signature of %s' % fdef.name)

  # ---- expressions: return (type, gallina)
  def expr(self, n, env, loop=None):
    if isinstance(n, ast.Constant):
      if isinstance(n.value, bool):
        return 'bool', 'true' if n.value else 'false'
      if isinstance(n.value, str):
        return 'str', coq_str(n.value)
      if isinstance(n.value, int):
        return 'Z', '(%d)%%Z' % n.value
      err(n, 'unsupported constant')
    if isinstance(n, ast.Name):
      if n.id in env:
        return env[n.id]
      err(n, 'unknown name %s' % n.id)
    if isinstance(n, ast.Call):
      f = n.func
      if (isinstance(f, ast.Attribute) and isinstance(f.value, ast.Name) and f.value.id == 'self'
          and f.attr in ACCESSORS and len(n.args) == 1 and not n.keywords
          and isinstance(n.args[0], ast.Name) and n.args[0].id == 'predicate_name'):
        t, field = ACCESSORS[f.attr]
        return t, '(%s a)' % field
      if (isinstance(f, ast.Attribute) and f.attr == 'join' and isinstance(f.value, ast.Constant)
          and isinstance(f.value.value, str) and len(n.args) == 1 and not n.keywords):
        t, g = self.expr(n.args[0], env, loop)
        if t != 'strlist':
          err(n, 'join of a non-list')
        return 'str', '(join %s %s)' % (coq_str(f.value.value), g)
      err(n, 'unsupported call')
    if isinstance(n, ast.BinOp):
      if isinstance(n.op, ast.Mod):
        if not (isinstance(n.left, ast.Constant) and isinstance(n.left.value, str)):
          err(n, 'unsupported % expression')
        fmt = n.left.value
        if fmt.count('%') != 1 or fmt.count('%d') != 1:
          err(n, 'format string must contain exactly one %d')
        pre, post = fmt.split('%d')
        t, g = self.expr(n.right, env, loop)
        if t == 'optZ':
          g = '(get_optZ %s)' % g
        elif t != 'Z':
          err(n, '%d of a non-int')
        return 'str', '(sapp %s (sapp (fmt_d %s) %s))' % (coq_str(pre), g, coq_str(post))
      if isinstance(n.op, ast.Add):
        tl, gl = self.expr(n.left, env, loop)
        tr, gr = self.expr(n.right, env, loop)
        if tl == tr == 'str':
          return 'str', '(sapp %s %s)' % (gl, gr)
        if tl == tr == 'strlist':
          return 'strlist', '(lapp %s %s)' % (gl, gr)
        err(n, 'unsupported + operands %s/%s' % (tl, tr))
      err(n, 'unsupported binary operator')
    if isinstance(n, ast.Subscript):
      if not isinstance(n.value, ast.Name):
        err(n, 'unsupported subscript')
      t, g = self.expr(n.value, env, loop)
      lst = self.as_list(n, t, g)
      idx = n.slice
      if isinstance(idx, ast.UnaryOp) and isinstance(idx.op, ast.USub) and isinstance(idx.operand, ast.Constant) \
          and idx.operand.value == 1:
        return 'str', '(last_of %s)' % lst
      if loop and n.value.id == loop['list']:
        if isinstance(idx, ast.Name) and idx.id == loop['var']:
          return 'str', 'cur'
        if (isinstance(idx, ast.BinOp) and isinstance(idx.op, ast.Add) and isinstance(idx.left, ast.Name)
            and idx.left.id == loop['var'] and isinstance(idx.right, ast.Constant) and idx.right.value == 1):
          return 'str', 'next'
      err(n, 'unsupported index')
    if isinstance(n, (ast.BoolOp, ast.UnaryOp, ast.Compare)):
      return 'bool', self.truth(n, env, loop)
    err(n, 'unsupported expression')

  def as_list(self, n, t, g):
    if t == 'optlist':
      return '(get_optlist %s)' % g
    if t == 'strlist':
      return g
    err(n, 'not a list')

  # ---- boolean contexts
  def truth(self, n, env, loop=None):
    if isinstance(n, ast.BoolOp):
      op = ' || ' if isinstance(n.op, ast.Or) else ' && '
      return '(%s)' % op.join(self.truth(v, env, loop) for v in n.values)
    if isinstance(n, ast.UnaryOp):
      if isinstance(n.op, ast.Not):
        return '(negb %s)' % self.truth(n.operand, env, loop)
      err(n, 'unsupported unary operator')
    if isinstance(n, ast.Compare):
      if len(n.ops) != 1:
        err(n, 'chained comparison')
      op, right = n.ops[0], n.comparators[0]
      if isinstance(op, (ast.Is, ast.IsNot)):
        if not (isinstance(right, ast.Constant) and right.value is None):
          err(n, '`is` only against None')
        t, g = self.expr(n.left, env, loop)
        if t not in ('optZ', 'optlist'):
          err(n, '`is None` on a non-optional value')
        return '(is_none %s)' % g if isinstance(op, ast.Is) else '(negb (is_none %s))' % g
      tl, gl = self.expr(n.left, env, loop)
      tr, gr = self.expr(right, env, loop)
      if tl == tr == 'str' and isinstance(op, (ast.Eq, ast.NotEq)):
        return '(%s %s %s)' % ('str_eq' if isinstance(op, ast.Eq) else 'str_ne', gl, gr)
      if tl == tr == 'Z':
        fn = {ast.Eq: 'Z.eqb %s %s', ast.NotEq: 'negb (Z.eqb %s %s)', ast.Gt: 'Z.gtb %s %s',
              ast.GtE: 'Z.geb %s %s', ast.Lt: 'Z.ltb %s %s', ast.LtE: 'Z.leb %s %s'}.get(type(op))
        if fn:
          return '(%s)' % (fn % (gl, gr))
      err(n, 'unsupported comparison %s/%s' % (tl, tr))
    t, g = self.expr(n, env, loop)
    if t == 'bool':
      return g
    if t == 'optZ':
      return '(truthy_optZ %s)' % g
    if t == 'optlist':
      return '(truthy_optlist %s)' % g
    if t == 'Z':
      return '(negb (Z.eqb %s 0))' % g
    if t == 'str':
      return '(str_ne %s "")' % g
    if t == 'strlist':
      return '(negb (Nat.eqb (length %s) 0))' % g
    err(n, 'no truth value')

  # ---- statements: returns gallina of the value returned by the block
  def block(self, stmts, env, rettype):
    env = dict(env)
    for k, s in enumerate(stmts):
      rest = stmts[k + 1:]
      if isinstance(s, ast.Expr) and isinstance(s.value, ast.Constant) and isinstance(s.value.value, str):
        continue  # docstring
      if isinstance(s, ast.Return):
        if s.value is None:
          err(s, 'bare return')
        t, g = self.expr(s.value, env)
        if t != rettype:
          err(s, 'returns %s, expected %s' % (t, rettype))
        return g
      if isinstance(s, ast.Assign):
        if len(s.targets) != 1 or not isinstance(s.targets[0], ast.Name):
          err(s, 'unsupported assignment')
        name = s.targets[0].id
        if name in ('self', 'predicate_name', 'a', 'cur', 'next'):
          err(s, 'assignment to reserved name')
        if isinstance(s.value, ast.List) and not s.value.elts:
          env[name] = ('strlist', '[]')
          continue
        t, g = self.expr(s.value, env)
        env[name] = (t, 'v_' + name)
        return '(let v_%s := %s in\n  %s)' % (name, g, self.block(rest, env, rettype))
      if isinstance(s, ast.Expr) and isinstance(s.value, ast.Call):
        name, g = self.append_call(s.value, env, None)
        env[name] = ('strlist', '(lapp %s [%s])' % (env[name][1], g))
        continue
      if isinstance(s, ast.If):
        test = self.truth(s.test, env)
        then = self.block(s.body, env, rettype)
        if s.orelse:
          if rest:
            err(s, 'statements after an if/else whose branches must both return')
          other = self.block(s.orelse, env, rettype)
        else:
          other = self.block(rest, env, rettype)
        return '(if %s\n   then %s\n   else %s)' % (test, then, other)
      if isinstance(s, ast.For):
        self.for_loop(s, env)
        continue
      err(s, 'unsupported statement')
    err(self.fdef, 'a path of %s does not return' % self.fdef.name)

  def append_call(self, call, env, loop):
    f = call.func
    if not (isinstance(f, ast.Attribute) and f.attr == 'append' and isinstance(f.value, ast.Name)
            and len(call.args) == 1 and not call.keywords):
      err(call, 'unsupported call statement')
    name = f.value.id
    if name not in env or env[name][0] != 'strlist':
      err(call, 'append to something that is not a local list')
    t, g = self.expr(call.args[0], env, loop)
    if t != 'str':
      err(call, 'append of a non-string')
    return name, g

  def for_loop(self, s, env):
    """for i in range(len(L) - 1): [if c: R.append(e1) else: R.append(e2)] | [R.append(e)]"""
    it = s.iter
    ok = (isinstance(s.target, ast.Name) and not s.orelse and isinstance(it, ast.Call)
          and isinstance(it.func, ast.Name) and it.func.id == 'range' and len(it.args) == 1 and not it.keywords)
    if ok:
      a = it.args[0]
      ok = (isinstance(a, ast.BinOp) and isinstance(a.op, ast.Sub) and isinstance(a.right, ast.Constant)
            and a.right.value == 1 and isinstance(a.left, ast.Call) and isinstance(a.left.func, ast.Name)
            and a.left.func.id == 'len' and len(a.left.args) == 1 and isinstance(a.left.args[0], ast.Name))
    if not ok:
      err(s, 'unsupported loop header')
    lname = it.args[0].left.args[0].id
    if lname not in env:
      err(s, 'loop over unknown list')
    lst = self.as_list(s, *env[lname])
    loop = {'var': s.target.id, 'list': lname}
    if len(s.body) != 1:
      err(s, 'unsupported loop body')
    b = s.body[0]
    if isinstance(b, ast.Expr) and isinstance(b.value, ast.Call):
      acc, g = self.append_call(b.value, env, loop)
      body = g
    elif (isinstance(b, ast.If) and len(b.body) == 1 and len(b.orelse) == 1
          and all(isinstance(x, ast.Expr) and isinstance(x.value, ast.Call) for x in b.body + b.orelse)):
      acc, g1 = self.append_call(b.body[0].value, env, loop)
      acc2, g2 = self.append_call(b.orelse[0].value, env, loop)
      if acc != acc2:
        err(s, 'branches append to different lists')
      body = '(if %s then %s else %s)' % (self.truth(b.test, env, loop), g1, g2)
    else:
      err(s, 'unsupported loop body')
    if acc == lname:
      err(s, 'loop mutates the list it walks')
    env[acc] = ('strlist', '(lapp %s (map_adj (fun cur next => %s) %s))' % (env[acc][1], body, lst))

  def translate(self, rettype):
    return self.block(self.fdef.body, {}, rettype)


def find_method(tree, cls, name):
  found = [m for c in tree.body if isinstance(c, ast.ClassDef) and c.name == cls
           for m in c.body if isinstance(m, ast.FunctionDef) and m.name == name]
  if len(found) != 1:
    raise TranslationError('expected exactly one %s.%s, found %d' % (cls, name, len(found)))
  return found[0]


def direction_words(tree):
  """`for c in self.annotations.OrderBy(name): if c in [<strings>]: continue` of CheckOrderByClause."""
  m = find_method(tree, 'LogicaProgram', 'CheckOrderByClause')
  hits = []
  for n in ast.walk(m):
    if isinstance(n, ast.For) and n.body and isinstance(n.body[0], ast.If):
      i = n.body[0]
      t = i.test
      if (isinstance(t, ast.Compare) and len(t.ops) == 1 and isinstance(t.ops[0], ast.In)
          and isinstance(t.comparators[0], (ast.List, ast.Tuple, ast.Set))
          and all(isinstance(e, ast.Constant) and isinstance(e.value, str) for e in t.comparators[0].elts)
          and len(i.body) == 1 and isinstance(i.body[0], ast.Continue) and not i.orelse):
        hits.append([e.value for e in t.comparators[0].elts])
  if len(hits) != 1:
    raise TranslationError('CheckOrderByClause: expected exactly one `if c in [...]: continue`, found %d' % len(hits))
  return hits[0]


def render(src):
  tree = ast.parse(src)
  out = ['(* GENERATED by translators/planrules.py from compiler/universe.py - do not edit.',
         '   Each definition is the if/return structure of the named method over LV.Exec.PyVal.Ann. *)',
         'From Coq Require Import List Bool ZArith String.',
         'Import ListNotations.',
         'From LV Require Import Exec.PyVal.',
         'Open Scope string_scope.', '']
  for py, coq, rt in TARGETS:
    m = find_method(tree, 'Annotations', py)
    body = Fn(m).translate(rt)
    seg = ast.get_source_segment(src, m) or ''
    out.append('(* Annotations.%s  sha256(source)=%s *)' % (py, hashlib.sha256(seg.encode()).hexdigest()[:16]))
    out.append('Definition %s (a : Ann) : %s :=\n  %s.\n' % (coq, COQ_TYPE[rt], body))
  words = direction_words(tree)
  out.append('(* LogicaProgram.CheckOrderByClause: arguments skipped as direction words *)')
  out.append('Definition checker_direction_words : list string := [%s].\n' % '; '.join(coq_str(w) for w in words))
  return '\n'.join(out)


def generate(repo=None, out=None):
  """Returns (ok, message).  Always (re)writes the output file; on error the file does not compile."""
  repo = repo or common.REPO
  out = out or OUT
  path = os.path.join(repo, 'compiler', 'universe.py')
  try:
    with open(path) as f:
      src = f.read()
    text = render(src)
    coqrun.write_if_changed(out, text)
    return True, 'generated %s' % out
  except (TranslationError, SyntaxError, OSError) as e:
    msg = '%s: %s' % (type(e).__name__, e)
    safe = msg.replace('*)', '* )').replace('(*', '( *')
    coqrun.write_if_changed(out, '(* GENERATION ERROR (fail closed): %s *)\n'
                                 'Definition plan_rules_generation_failed : True := 0.\n' % safe)
    return False, msg


if __name__ == '__main__':
  print(generate())
