#!/bin/bash
# Offline build of the whole Coq development (full .vo) and of the extracted drivers.
set -e
cd "$(dirname "$(readlink -f "$0")")"
export PYTHONPATH="$PWD" PYTHONHASHSEED=0 PYTHONDONTWRITEBYTECODE=1
/venv/bin/python -m vlib.setup
